"""Per-property run plans for ./check.  Each entry:
   runs(tier) -> list of dict(family, n, params, flavour, chunk, scalable)
   rule: how cases are generated and what makes one distinct / non-trivial
   floor: minimum number of distinct non-trivial signatures per tier (below: inconclusive)
"""

def T(tier, q, t):
    return q if tier == "quick" else t

PROPS = {}

PROPS["C16"] = dict(
    runs=lambda tier: [
        dict(family="codec-roundtrip", n=T(tier, 160, 4000), params={"batch": 2000}),
        dict(family="codec-decode", n=T(tier, 160, 4000), params={"batch": 2000}),
        dict(family="codec-flips", n=T(tier, 160, 8000), params={"batch": 4000}),
        dict(family="crc-closure", n=1, params={"affinity": T(tier, 100000, 2000000)}, scalable=False),
    ],
    rule=("codec-roundtrip: random representable frames of the nine types (boundary-biased fields, 0..127 datagrams, "
          "0..max ack groups, exact-1472 fills) through the real write() then read(), compared with the reference "
          "encoder/decoder; non-trivial = frame >= 1400 bytes or uses >= 2 datagram header encodings. "
          "codec-decode: random bytes and 11 kinds of mutation of genuine encodings with CRC fix-up, classified by the "
          "independent reference as must-accept / must-reject / don't-care and compared with read(); non-trivial = input "
          "carries a valid CRC. codec-flips: 1-4 random bit flips of genuine frames must be rejected. crc-closure: the "
          "11776 single-bit syndromes of the real crc::compute are measured, affinity is monitored on random messages, "
          "and an exhaustive closure shows no 1..4 syndromes xor to zero. distinct = structural signature (frame type, "
          "size bucket, encodings used, mutation kind, classification, flip count / position class)."),
    level_text=("Exploration by runtime monitoring: ~1.3 M generated / mutated / corrupted frames per quick run go through the real "
                "Frame::read / write under an independent reference codec oracle; the <=4-bit CRC claim is decided for all "
                "8e14 patterns by an exhaustive closure over syndromes measured on the real crc::compute, conditional on its "
                "monitored affinity. Not a proof: field combinations not generated are not judged."),
    level_note="Trusted: the reference codec transcription of the documented layout (harness/src/wire.rs); sampled affinity of the CRC implementation.",
    technique="differential oracle over generated+mutated inputs; measured-syndrome CRC closure",
    floor=dict(quick=100, thorough=150),
    require_counters=["closure_completed", "roundtrip_frames", "decode_inputs", "flip_inputs"],
    assumptions=["the reference codec in harness/src/wire.rs transcribes the documented wire layout correctly",
                 "CRC closure rests on the monitored affinity of crc::compute (sampled, all 256 table indices swept at 6 offsets)",
                 "inputs longer than one MTU (1472 bytes) are never handed to the reader by the endpoints and are not generated"],
)
