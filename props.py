"""Per-property run plans for ./check.  Each entry:
   runs(tier) -> list of dict(family, n, params, flavour, chunk, scalable)
   rule: how cases are generated and what makes one distinct / non-trivial
   floor: minimum number of distinct non-trivial signatures per tier (below: inconclusive)
"""

def T(tier, q, t):
    return q if tier == "quick" else t

PROPS = {}

PROPS["C16"] = dict(
    runs=lambda tier: [
        dict(family="codec-roundtrip", n=T(tier, 160, 4000), params={"batch": 2000}),
        dict(family="codec-decode", n=T(tier, 160, 4000), params={"batch": 2000}),
        dict(family="codec-flips", n=T(tier, 160, 8000), params={"batch": 4000}),
        dict(family="crc-closure", n=1, params={"affinity": T(tier, 100000, 2000000)}, scalable=False),
    ],
    rule=("codec-roundtrip: random representable frames of the nine types (boundary-biased fields, 0..127 datagrams, "
          "0..max ack groups, exact-1472 fills) through the real write() then read(), compared with the reference "
          "encoder/decoder; non-trivial = frame >= 1400 bytes or uses >= 2 datagram header encodings. "
          "codec-decode: random bytes and 11 kinds of mutation of genuine encodings with CRC fix-up, classified by the "
          "independent reference as must-accept / must-reject / don't-care and compared with read(); non-trivial = input "
          "carries a valid CRC. codec-flips: 1-4 random bit flips of genuine frames must be rejected. crc-closure: the "
          "11776 single-bit syndromes of the real crc::compute are measured, affinity is monitored on random messages, "
          "and an exhaustive closure shows no 1..4 syndromes xor to zero. distinct = structural signature (frame type, "
          "size bucket, encodings used, mutation kind, classification, flip count / position class)."),
    level_text=("Exploration by runtime monitoring: ~1.3 M generated / mutated / corrupted frames per quick run go through the real "
                "Frame::read / write under an independent reference codec oracle; the <=4-bit CRC claim is decided for all "
                "8e14 patterns by an exhaustive closure over syndromes measured on the real crc::compute, conditional on its "
                "monitored affinity. Not a proof: field combinations not generated are not judged."),
    level_note="Trusted: the reference codec transcription of the documented layout (harness/src/wire.rs); sampled affinity of the CRC implementation.",
    technique="differential oracle over generated+mutated inputs; measured-syndrome CRC closure",
    floor=dict(quick=100, thorough=150),
    require_counters=["closure_completed", "roundtrip_frames", "decode_inputs", "flip_inputs"],
    assumptions=["the reference codec in harness/src/wire.rs transcribes the documented wire layout correctly",
                 "CRC closure rests on the monitored affinity of crc::compute (sampled, all 256 table indices swept at 6 offsets)",
                 "inputs longer than one MTU (1472 bytes) are never handed to the reader by the endpoints and are not generated"],
)

# ---------------------------------------------------------------------------------------------
# hcsim-based properties (two real HalfConnections over a faulty link on the virtual clock)

def hc(family, q, t, tier, prop, **params):
    p = {"prop": prop}
    p.update(params)
    return dict(family=family, n=T(tier, q, t), params=p)

HC_ASSUME = [
    "virtual clock / seeded rng shims (cargo feature verif) do not change behaviour other than the time and random source",
    "the harness applies the same call order as Client::step/Server::step (flush, read, step, receive)",
    "payload identity: packets of 0..3 bytes cannot be told apart and are sent on one channel, never TimeSensitive, all-Reliable or none-Reliable per scenario",
]

def hc_prop(pid, runs, rule, level_text, technique, floor, note="", require=None, also=None):
    # also: signatures raised by monitors of other properties that this property's statement covers too
    PROPS[pid] = dict(
        runs=runs, rule=rule, level_text=level_text, technique=technique,
        level_note=note or "Trusted: virtual clock/rng shims, the reference wire decoder, the boundary model in harness/src/model.rs. Held only on the scenarios listed in the evidence.",
        floor=floor, require_counters=require or [], assumptions=HC_ASSUME, also_sigs=also or [])

GEN = ("Scenarios are drawn from seeded generators (window 4..4096, nonces incl. near 2^32/2^20 wrap, 1..64 channels, four modes, "
       "payload classes incl. fragment-boundary sizes, rates, receive allocations, step cadences 0.1..200 ms, per-direction latency "
       "0..400 ms, fault phases with loss/dup/reorder/corruption/blackout per frame type, then a fair network until quiescence). "
       "distinct = hash of the scenario's counter vector and delivered sequence. ")

hc_prop("C01",
    lambda tier: [hc("faulty", 3000, 150000, tier, "C01", packets=T(tier, 300, 1500)),
                  hc("fault-then-fair", 800, 30000, tier, "C01"),
                  hc("ideal", 400, 10000, tier, "C01"),
                  dict(family="pid-lap", n=T(tier, 6, 300), params={}, scalable=False)],
    GEN + "pid-lap: the harness sends just under 2^20 tiny unordered packets (about a hundred per frame) to a real receiving HalfConnection and then copies of the very first frames again: late duplicates whose 20-bit packet ids have come round into the receiver's window, told apart by the frame id alone. non-trivial: >= 20 packets delivered and >= 1 frame dropped and >= 1 duplicated or delayed past a later frame (pid-lap: >= 90 % of the lap delivered and the late duplicates handed over).",
    "Offline history oracle over every delivery: payload identity maps each delivered payload to the submitted packet; checks unknown/altered/duplicate/out-of-order-per-channel deliveries. Exploration of seeded fault schedules, not a proof.",
    "history oracle (payload identity, per-channel subsequence) over fault-injected executions",
    dict(quick=800, thorough=20000), require=["deliveries", "fate_drop", "fate_dup", "fate_corrupt", "lap_late_duplicate_frames"])

hc_prop("C02",
    lambda tier: [hc("fault-then-fair", 2500, 100000, tier, "C02"),
                  hc("faulty", 800, 30000, tier, "C02"),
                  hc("blackout", 300, 10000, tier, "C02"),
                  dict(family="ep-ideal", n=T(tier, 100, 4000), params={})],
    GEN + "ep-ideal: real Client and Server with independently drawn limits (what each may send, what each can hold, 3 kB..2^64-1) and bursts beyond them on an ideal network: every Reliable packet must reach the other application, none replaced by a data-less placeholder. non-trivial: scenario reached quiescence and >= 1 Reliable packet had a fragment sent >= 3 times before being delivered.",
    "Safety: at every delivery no earlier Reliable packet of the channel is undelivered. Bounded liveness: after the fault phase, progress-based stall detector on virtual time (no delivery / first transmission / ack / window movement for max(600 s, 4*RTO)); at quiescence every Reliable packet delivered exactly once, nothing pending, send buffer zero. Unbounded 'eventually' is restated as bounded progress; horizon without stall is inconclusive.",
    "history oracle + virtual-time progress monitor over fault-then-fair executions",
    dict(quick=500, thorough=15000), require=["deliveries", "scenarios_quiescent"],
    also=["C05:ep-not-delivered-on-ideal-network", "C05:ep-order-on-ideal-network", "C06:dud-between-uflow-endpoints"])

hc_prop("C05",
    lambda tier: [hc("ideal", 2500, 100000, tier, "C05", packets=T(tier, 300, 1500)),
                  dict(family="ep-ideal", n=T(tier, 150, 6000), params={}),
                  dict(family="ep-fidelity", n=T(tier, 300, 10000), params={}),
                  dict(family="frag-max", n=T(tier, 14, 200), params={"prop": "C05"}, scalable=False)],
    GEN + "ep-ideal with a predecessor (a quarter of the sessions): an earlier connection from the same address that the client closed 6..19 s before the session proper; the second half of the client's packets is submitted only after the server's 20 s memory of the old connection has run out, and every one of them must arrive. frag-max (ideal form): one packet from the top of the legal range (MAX_PACKET_SIZE = 65536 fragments, MAX-1, the fragment-count boundaries below, 5..95 MB) over a loss-free link. ideal family: no faults, constant latency per direction, bursts above window / allocation / flush budget, both directions. ep-ideal: a real Client and Server configured independently (what each may send 100 B..1 MB, what each can hold 3 kB..1 MB, rates 0.1..10 MB/s: each end has to use the OTHER's advertised allowance), ideal network, both applications submitting up to 1500 packets of every mode in bursts of up to 200 per step, until both ends report nothing pending. non-trivial: >= 50 packets delivered (ep-ideal: finished with >= 100 packets).",
    "Equality oracle: delivered sequence (all channels) must be the submission sequence minus TimeSensitive packets; a fully transmitted TimeSensitive packet must not be skipped; at quiescence every non-TimeSensitive packet delivered exactly once; a scenario that stops making progress with a backlog (the progress monitor's stall signature) counts as packets not delivered. Endpoint level: each application's Receive events are exactly the other's submissions in order, TimeSensitive ones possibly missing.",
    "sequence-equality oracle over fault-free executions",
    dict(quick=800, thorough=20000), require=["deliveries", "single_packet_max_packet_size", "ep_ideal_sessions_with_predecessor"],
    also=["C02:stall", "C11:stall", "C04:packet-not-reassembled"])

hc_prop("C12",
    lambda tier: [hc("faulty", 2000, 80000, tier, "C12"),
                  hc("rate", 600, 20000, tier, "C12"),
                  hc("ideal", 400, 10000, tier, "C12"),
                  hc("fault-then-fair", 1200, 40000, tier, "C12"),
                  hc("blackout", 1000, 30000, tier, "C12"),
                  hc("frag", 500, 20000, tier, "C12", frag_packets=T(tier, 40, 120)),
                  dict(family="frag-len", n=T(tier, 400, 20000), params={"prop": "C12", "first": 5795}, scalable=False),
                  dict(family="solo-api", n=T(tier, 300, 10000), params={"batch": 10, "ops": 400}),
                  dict(family="lifecycle", n=T(tier, 300, 10000), params={})],
    GEN + "lifecycle (real Client / Server): packets of every mode handed to Client::send() while the client is still connecting; a TimeSensitive one among them must never reach the server application. solo-api: one real sending HalfConnection driven through its API in arbitrary call order (send / step after 0, 0.3, 0.9, 1, 5, 33 ms / flush / honest acknowledgements after a simulated round trip, drawn at random: step() twice in a row, twice within one millisecond, sends between step and flush, several flushes or none), the same boundary model following along. non-trivial: >= 1 fragment retransmitted and >= 1 ack group processed (solo-api: >= 5 steps less than 1 ms apart, >= 3 TimeSensitive packets, >= 3 ack frames).",
    "Reference model fed from the wire and from the ack frames handed to the sender (acceptance rule: bitfield non-zero, all ids in the sender's log, nonce parity) decides per fragment whether a (re)transmission is allowed for its mode.",
    "reference-model monitor on wire frames and ack inputs",
    dict(quick=500, thorough=15000), require=["frag_retx", "ack_groups_processed", "sub_ts", "solo_steps_less_than_1ms_apart", "c12_ts_sends_before_connect"])

hc_prop("C13",
    lambda tier: [hc("rate", 2500, 80000, tier, "C13"),
                  hc("faulty", 600, 20000, tier, "C13"),
                  hc("ideal", 300, 10000, tier, "C13"),
                  dict(family="ack-storm", n=T(tier, 100, 4000), params={"batch": 4}),
                  dict(family="ep-ideal", n=T(tier, 100, 4000), params={})],
    GEN + "rate family: ceilings 1472 B/s..2^32-1 on either side, backlogs, 0..20 application flushes per step, pauses then bursts. ack-storm: the harness is the peer of one real HalfConnection (ceiling 20 kB/s..500 kB/s, modest own traffic, so it holds burst credit): it acknowledges the victim's frames honestly after a simulated round trip of 20..400 ms and every 1..4 s hands it 170..3000 empty data frames with ids 33 apart between two flushes, so that up to 4096 acknowledgement groups (25 ack frames) are owed at once. ep-ideal: real Client and Server with independently drawn rate limits, bursts far above them; the connection frames of each direction on the virtual wire are counted against min(sender's send limit, receiver's receive limit) with the largest RTT estimate and step interval the sender had (coarse form: what it reports is far outside). non-trivial: >= 100 frames on the wire (ack-storm: a flush owing more than one ack frame with an RTT estimate present).",
    "Exact byte counting at FrameSink::send on virtual time; every interval within a 600-event look-back plus a running-minimum form for long intervals, against B*(dt+R)+1472 (R = larger of the RTT estimates after the last two steps).",
    "interval byte-count oracle on the virtual-time wire trace",
    dict(quick=800, thorough=20000), require=["rate_events", "flushes_owing_more_than_one_ack_frame"])

hc_prop("C15",
    lambda tier: [hc("ack-twin", 1200, 60000, tier, "C15")],
    GEN + "each scenario is run twice with the same seed; the second run hands the sender forged / replayed ack frames composed against its live state (wrong parity over known frames, future / forgotten / straddling ids, verbatim replays of delivered acks). non-trivial: >= 1 injected group over known frames or replay.",
    "Twin-run equality: emitted frame bytes and times, rtt_s, allowed rate, send_buffer_size, is_send_pending after every step must be identical with and without the hostile acks.",
    "twin-run differential monitor",
    dict(quick=400, thorough=15000), require=["inj_ack_frames", "inj_wrong_nonce_over_known_frames", "inj_replay_of_delivered_ack"])

hc_prop("C20",
    lambda tier: [hc("faulty", 2000, 80000, tier, "C20"),
                  hc("ideal", 600, 20000, tier, "C20"),
                  hc("alloc-pair", 600, 20000, tier, "C20"),
                  dict(family="solo-api", n=T(tier, 100, 4000), params={"batch": 10, "ops": 400})],
    GEN + "non-trivial: >= 1 TimeSensitive packet discarded and >= 1 window ack released >= 2 packets.",
    "Boundary model (submissions, wire, accepted window acks) bounds send_buffer_size() after every call: [L, U] with U-L = stale TimeSensitive packets not yet provably discarded; exact value whenever nothing is pending; never above the total submitted.",
    "reference-model monitor on a public observable",
    dict(quick=300, thorough=8000), require=["sbs_checks", "not_pending_observations", "ts_discarded"])

hc_prop("C04",
    lambda tier: [dict(family="frag-len", n=T(tier, 5795 + 400, 5795 + 30000), params={"prop": "C04"}, scalable=False),
                  dict(family="frag-max", n=T(tier, 16, 400), params={"prop": "C04"}, scalable=False),
                  hc("frag", 1500, 60000, tier, "C04", frag_packets=T(tier, 40, 120)),
                  hc("frag-twin", 1000, 40000, tier, "C04"),
                  dict(family="frag-rx", n=T(tier, 200, 8000), params={"batch": 10, "packets": T(tier, 60, 120)}),
                  hc("ideal", 400, 15000, tier, "C04", packets=T(tier, 300, 1500), tiny_bursts=1)],
    GEN + "ideal (the small end of the size range): bursts of up to 5000 packets of 0..15 bytes submitted at once, so that data frames carry the largest number of datagrams a frame can hold, next to packets of every other size class; a backlog that stops moving counts as packets not arriving. frag-len: ONE packet per scenario, every length 0..=5794 exhaustively (then sampled lengths up to 1 MB), fragments duplicated / reordered / partly lost and resent. frag-max: the same with ONE packet from the top of the legal range: MAX_PACKET_SIZE = 65536 x 1448 = 94 896 128 bytes (last fragment id 0xFFFF) and MAX-1, MAX-1447, MAX-1448, MAX-1449, 65535 and 65534 and 32768 (+-1 byte) and 16384 and 4097 fragments first, then sampled lengths of 5..95 MB, over 20 MB/s..4 GB/s links. frag: multi-fragment heavy mixes with rates that cut packets across flushes. frag-twin: same scenario twice, second run with datagrams appended whose header disagrees with the genuine fragments of the same packet (forward link ideal so the first fragment seen is genuine). non-trivial: multi-fragment packet delivered after >= 1 duplicate / delayed / lost fragment (frag-len: delivered), twin: >= 1 conflicting datagram injected. frag-rx: the harness is the sender: its own packets, cut with the reference codec, are handed to a real receiving HalfConnection one fragment per frame in any order (shuffled / reversed / in order, 1..64 packets interleaved, windows 4..4096, ids wrapping 2^20), repeated also after delivery and behind the window, with forged fragments for packets under assembly whose header disagrees with the first genuine one (fewer / more fragments, other channel, other leads; full-size or short) aimed at slots not yet received; non-trivial = a packet that had forged fragments aimed at a missing slot was delivered.",
    "Wire monitor: no emitted frame > 1472 bytes; every datagram equals the right slice of its packet; byte-exact delivery (C01 oracle); single packets delivered exactly once; twin-run equality of deliveries under conflicting fragments; a stall with a backlog in these families counts as packets not arriving; synthetic-sender sessions: byte-identical, at-most-once, per-channel-ordered delivery and exactly-once for the ordered chain under arbitrary fragment arrival orders and forged disagreeing fragments. Length sweep is exhaustive for 0..=4*1448+2, everything else sampled.",
    "wire-slicing monitor + exhaustive length sweep + twin-run differential",
    dict(quick=1500, thorough=20000), require=["single_packet_multifrag", "single_packet_max_packet_size", "conflicting_datagrams_injected", "delivered_multifrag", "forged_into_slot_not_yet_received", "forged_fewer_fragments", "repeated_after_delivery"],
    also=["C01:delivered-altered", "C01:delivered-unknown", "C01:delivered-twice", "C02:stall", "C11:stall", "C02:reliable-not-delivered-at-quiescence"])

hc_prop("C06",
    lambda tier: [dict(family="hostile-rx", n=T(tier, 48, 1500), params={"batch": 20, "frames": T(tier, 2000, 6000)}),
                  hc("alloc-pair", 1500, 60000, tier, "C06"),
                  hc("faulty", 500, 20000, tier, "C06"),
                  dict(family="ep-ideal", n=T(tier, 150, 6000), params={})],
    GEN + "hostile-rx: a real receiving HalfConnection fed CRC-valid hostile frames (claimed fragment counts up to 65536, ids inside/outside/aliasing the window, never-completing packets, ack-group floods with jumping frame ids, inconsistent parent leads), receive allocation 1 B..5 MB, receive cadence from every frame to never; the checking allocator's scoped live-byte counter is sampled after every call. alloc-pair: honest pairs with tiny allocations/windows so the sender sits at the limit. non-trivial: receive allocation driven to >= 90 % or >= 50 datagrams handled (hostile), sender at its window or allocation limit (pair).",
    "Receiver: scoped heap of the connection <= heap at construction + max_receive_alloc rounded up to a fragment (+0.2 %) + 192 kB of protocol-constant state, after every call of a hostile stream. Sender: boundary model of outstanding packets/bytes vs the peer's advertised limits. Pair: placeholder ('dud') counter stays zero.",
    "scoped heap monitor (checking allocator) under hostile input + boundary-model monitor",
    dict(quick=600, thorough=15000), require=["hostile_frames", "sessions_reaching_90pct_of_receive_alloc", "sender_near_alloc_limit", "sessions_lead_confusion", "sessions_ack_group_flood"])

hc_prop("C11",
    lambda tier: [hc("blackout", 1500, 60000, tier, "C11"),
                  hc("fault-then-fair", 800, 30000, tier, "C11")],
    GEN + "blackout family: total / one-way blackouts of 0.1 s..10 min, loss of all acks / all data / everything but syncs for a period, lasting x10 latency changes, then probe trains of every mode. non-trivial: >= 1 frame lost to the blackout and >= 10 packets delivered.",
    "Progress monitor on virtual time after the network turns fair: stall = no delivery / first transmission / ack / window movement for max(600 s, 4*RTO) with backlog; pinned = allowed rate <= 92 B/s for 4 h of virtual time with backlog under a ceiling >= 64x that. A scenario still progressing at the horizon is inconclusive. 'Permanently' is restated as these bounded windows.",
    "virtual-time progress monitor over blackout schedules",
    dict(quick=500, thorough=15000), require=["probe_trains", "fate_blackout_drop", "scenarios_quiescent"])

PROPS["C14"] = dict(
    runs=lambda tier: [dict(family="srcomp", n=T(tier, 400, 20000), params={"batch": 200, "steps": 60}),
                       hc("rate", 800, 30000, tier, "C14"),
                       hc("blackout", 300, 10000, tier, "C14"),
                       hc("faulty", 800, 30000, tier, "C14"),
                       dict(family="ep-ideal", n=T(tier, 100, 4000), params={})],
    rule=("ep-ideal: real Client and Server whose four rate limits are drawn independently (20 kB/s..2^64-1), allowed rate of both senders sampled after every step against min(local send limit, peer receive limit), capped at 2^32-1. srcomp: the real SendRateComp driven directly with random feedback histories (RTT sample 0..10^6 ms, receive rate 0..2^32-1, loss rate 0..1 "
          "incl. 1e-9, rate-limited flag, gaps 0 ms..hours, ceilings 1472..2^32-1), stepped in lock-step with an independent evaluation of the RFC 5348 "
          "bounds; non-trivial = history reached the throughput-equation phase and had >= 1 no-feedback reduction. rate/blackout: the live controller "
          "inside hcsim sampled after every step against ceiling and floor; rate/blackout/faulty (acks lost, duplicated and REORDERED): after every sender step that consumed feedback, rtt_s() against a reference 0.9/0.1 moving average whose sample is the time since the newest data frame first acknowledged since the previous step was emitted (by the clock reading the sender stamps on it: that of its last step()), computed from wire times and the ack groups the boundary model accepted (`live-rtt-estimate`). distinct = hash(ceiling, feedback count, reductions, final rate) / scenario signature."),
    level_text="Lock-step reference oracle: after every step X <= ceiling, X >= 23; after the first loss report X <= max(T(R,p),23); slow start at most doubles or uses 4380/R; no increase without feedback, an expiry at most halves; rtt_s is the 0.9/0.1 average; the loss history is initialised within 5 % of the target when the target is reachable. Endpoint level: the ceiling the controller works with is the one the two configurations imply.",
    level_note="Trusted: the ~40-line f64 evaluation of the RFC formulas in harness/src/rate14.rs. Timer expiry instants are not modelled (bounds only).",
    technique="lock-step reference oracle on the real rate controller",
    floor=dict(quick=2000, thorough=50000), require_counters=["srcomp_steps", "slow_start_exits", "eqn_phase_feedbacks", "nofeedback_reductions", "initial_p_checked", "live_rtt_samples_checked"],
    assumptions=["feedback histories are arbitrary, not restricted to those a frame queue can produce"])

PROPS["C03"] = dict(
    runs=lambda tier: [dict(family="hostile-hc", n=T(tier, 100, 5000), params={"batch": 20, "frames": 400}),
                       dict(family="hostile-hc", n=T(tier, 60, 2500), params={"batch": 20, "frames": 400}, flavour="checked"),
                       dict(family="hostile-rx", n=T(tier, 24, 600), params={"batch": 10, "frames": 1500}),
                       dict(family="hostile-rx", n=T(tier, 16, 300), params={"batch": 10, "frames": 1000}, flavour="checked"),
                       dict(family="srcomp", n=T(tier, 100, 5000), params={"batch": 200, "steps": 60}),
                       dict(family="srcomp", n=T(tier, 60, 2000), params={"batch": 200, "steps": 60}, flavour="checked"),
                       dict(family="codec-decode", n=T(tier, 40, 2000), params={"batch": 2000}, flavour="checked"),
                       dict(family="faulty", n=T(tier, 600, 20000), params={}, flavour="checked"),
                       dict(family="fault-then-fair", n=T(tier, 300, 10000), params={}, flavour="checked"),
                       dict(family="ideal", n=T(tier, 200, 10000), params={}, flavour="checked"),
                       dict(family="rate", n=T(tier, 200, 10000), params={}, flavour="checked"),
                       dict(family="ack-twin", n=T(tier, 150, 5000), params={}, flavour="checked"),
                       dict(family="frag-max", n=T(tier, 8, 100), params={"prop": "C03"}, flavour="checked", scalable=False)],
    rule=("hostile-hc / hostile-rx: a real HalfConnection (windows 4..4096, nonces near wrap) receives CRC-valid frames composed against its live windows - every id from "
          "{base, base+-1, base+W, base+W+-1, next, 2^20 aliases, high bits set, random}, fragment ids/counts {0,1,last,last+1,65535}, leads {0,1,65535,..}, ack bitfields "
          "{0,1,0x80000001,~0}, random bytes with a valid CRC, mutated copies of the victim's own frames - interleaved with send/step/flush/receive at spacings 0..5000 ms; all input "
          "passes Frame::read. srcomp: arbitrary feedback into the rate controller. The honest families are replayed as crash detectors. Every family also runs in the 'checked' "
          "flavour (debug assertions + overflow checks). non-trivial: >= 20 hostile frames accepted by the reader and handled; distinct = hash of the per-type handled counts."),
    level_text="Crash/hang oracle: catch_unwind + panic hook around every call into uflow, a wall-clock watchdog (10 s per call, 120 s confirmation re-run) for non-returning calls, process exit status for aborts. Endpoint-level hostile peers (Server/Client) are covered by the epsim families listed under C07/C18.",
    level_note="Trusted: the watchdog thresholds (a single call legitimately takes micro- to milliseconds). Only inputs the generators produce are judged.",
    technique="panic/hang monitor under generated hostile frames, release and debug-assertion builds",
    floor=dict(quick=1500, thorough=50000), require_counters=["hostile_frames", "handled_data", "handled_acks", "handled_sync", "srcomp_steps", "victims_accepting_max_packet_size", "single_packet_max_packet_size"],
    assumptions=["API misuse the documentation forbids (oversized send, bad channel, invalid config) is never generated"])

def MIRI_RUNS(tier):
    """Small scenarios interpreted by Miri (-Zmiri-tree-borrows, isolation off): UB, layout, leaks, data races.
    One scenario per process (chunk=1); about 1-4 minutes each, 16 in parallel. Thorough tier only."""
    if tier == "quick":
        return []
    m = dict(flavour="miri", chunk=1, scalable=False, timeout=3000)
    a = dict(flavour="asan", env={"ASAN_OPTIONS": "halt_on_error=1:abort_on_error=0:detect_leaks=1:exitcode=23"})
    v = dict(flavour="valgrind", timeout=3000)
    return [
        # valgrind memcheck on the plain release build (stable toolchain), checking allocator off:
        # invalid reads / writes, uses of uninitialised values, mismatched or double frees, definite leaks
        dict(family="frag", n=64, params={"prop": "C19", "frag_packets": 30}, **v),
        dict(family="faulty", n=160, params={"prop": "C19", "packets": 80}, **v),
        dict(family="alloc-pair", n=64, params={"prop": "C19"}, **v),
        dict(family="hostile-rx", n=16, params={"batch": 4, "frames": 600}, **v),
        dict(family="hostile-hc", n=32, params={"batch": 8, "frames": 300}, **v),
        dict(family="lifecycle", n=96, params={}, **v),
        dict(family="ep-hostile", n=64, params={"frames": 200}, **v),
        dict(family="ep-fidelity", n=64, params={}, **v),
        dict(family="codec-decode", n=16, params={"batch": 1000}, **v),
        # AddressSanitizer + LeakSanitizer (nightly, -Zsanitizer=address), checking allocator off
        dict(family="frag", n=4000, params={"prop": "C19", "frag_packets": 60}, **a),
        dict(family="faulty", n=4000, params={"prop": "C19"}, **a),
        dict(family="alloc-pair", n=1500, params={"prop": "C19"}, **a),
        dict(family="hostile-rx", n=64, params={"batch": 10, "frames": 1500}, **a),
        dict(family="hostile-hc", n=200, params={"batch": 20, "frames": 400}, **a),
        dict(family="lifecycle", n=600, params={}, **a),
        dict(family="codec-decode", n=100, params={"batch": 2000}, **a),
        dict(family="sendsync", n=2, params={}, **m),
        dict(family="frag-len", n=6, params={"prop": "C19", "first": 1449}, **m),
        dict(family="faulty", n=6, params={"prop": "C19", "packets": 12, "max_steps": 1500, "fault_s": 2}, **m),
        dict(family="hostile-rx", n=3, params={"batch": 1, "frames": 25}, **m),
        dict(family="hostile-hc", n=3, params={"batch": 1, "frames": 120}, **m),
        dict(family="codec-decode", n=2, params={"batch": 150}, **m),
        dict(family="lifecycle", n=3, params={"max_clients": 2, "miri": 1}, **m),
    ]


hc_prop("C19",
    lambda tier: [hc("frag", 1500, 50000, tier, "C19", frag_packets=T(tier, 40, 100)),
                  hc("faulty", 1500, 50000, tier, "C19"),
                  hc("alloc-pair", 500, 20000, tier, "C19"),
                  dict(family="hostile-rx", n=T(tier, 24, 600), params={"batch": 10, "frames": 1500}),
                  dict(family="frag-rx", n=T(tier, 40, 2000), params={"batch": 10, "packets": 60}),
                  dict(family="lifecycle", n=T(tier, 300, 10000), params={}),
                  dict(family="disconnect", n=T(tier, 300, 10000), params={}),
                  dict(family="limits", n=T(tier, 100, 4000), params={}),
                  dict(family="ep-partial-read", n=T(tier, 100, 3000), params={}),
                  dict(family="ep-fidelity", n=T(tier, 200, 5000), params={}),
                  dict(family="ep-hostile", n=T(tier, 300, 10000), params={"frames": 200})] + MIRI_RUNS(tier),
    GEN + "Every scenario runs under the checking global allocator (layout recorded at alloc, compared at dealloc/realloc; live bytes of calls into uflow counted per scope); at the end both HalfConnections are dropped mid-state (delivered, skipped, partially assembled, resynchronised-away packets). Endpoint families (lifecycle, disconnect, limits): real Client / Server / RemoteClient handles created, connected, disconnected, timed out and dropped in every state of the lifecycle (also mid-transfer and mid-handshake, Server dropped with live connections); after the whole world is dropped the bytes allocated inside calls into uflow must be back to where they were; ep-partial-read: applications that read only the first 0..2 events of a step's iterator and drop it (unread Receive payloads stay the library's to release); ep-hostile: error paths of the handshake and of established connections under a raw hostile peer (a second release of a block is recorded by the allocator and withheld from the system allocator, so it is reported instead of crashing the worker). non-trivial: teardown checked and >= 1 reassembled multi-fragment packet freed (endpoint families: teardown checked).",
    "Allocator-contract monitor on every free in every scenario + leak check at teardown (scoped live bytes return to the pre-construction value). The thorough tier adds the same families under AddressSanitizer/LeakSanitizer (nightly) and a small subset interpreted by Miri with tree borrows (UB, layout on deallocation, leaks, data races incl. a Send/Sync workload).",
    "checking global allocator (layout match, scoped leak check) over fault-injected executions",
    dict(quick=800, thorough=20000), require=["teardowns_checked", "delivered_multifrag", "endpoint_teardowns_checked"])

# ---------------------------------------------------------------------------------------------
# epsim-based properties (real Client / Server objects over the virtual network and clock)

EP_ASSUME = [
    "virtual socket shim: an in-process datagram network with UDP semantics (boundaries preserved, truncation to the buffer, WouldBlock when empty, connected sockets filter by peer)",
    "virtual clock / seeded rng shims (cargo feature verif) do not change behaviour other than the time and random source",
    "histories are recorded at the API boundary (events returned by step(), application calls) and at the socket (every datagram sent / delivered)",
]
EPGEN = ("Real uflow::server::Server and uflow::client::Client objects run over the in-process virtual network on the virtual clock; the harness is the network (per-datagram "
         "loss / duplication / delay / blackouts / targeted drops of the k-th SYN, SYN-ACK or ACK), can inject datagrams with any source address, and records every datagram "
         "sent and delivered plus every event and application call with virtual timestamps. distinct = hash of the scenario's counters and server event history. ")

FID = ' ep-fidelity: the same scripted session (1..3 clients, mixed modes and sizes up to 12 kB in both directions, disconnects from either side) runs twice on the virtual clock, once over the virtual network (ideal) and once over REAL UDP sockets on 127.0.0.1 (std::net::UdpSocket, non-blocking recv loops, connected client sockets, UdpFrameSink); the monitors judge both runs, and the two event streams are compared (a difference after retries is an inconclusive note on the socket model, never a verdict).'

def ep(family, q, t, tier, prop, **params):
    p = {"prop": prop}
    p.update(params)
    return dict(family=family, n=T(tier, q, t), params=p)

def ep_prop(pid, runs, rule, level_text, technique, floor, require=None, note="", also=None):
    PROPS[pid] = dict(runs=runs, rule=EPGEN + rule, level_text=level_text, technique=technique,
                      level_note=note or "Trusted: the virtual socket/clock/rng shims and the reference wire decoder. Held only on the sessions listed in the evidence.",
                      floor=floor, require_counters=require or [], assumptions=EP_ASSUME, also_sigs=also or [])

ep_prop("C07",
    lambda tier: [ep("handshake", 700, 30000, tier, "C07", max_clients=T(tier, 6, 24)),
                  ep("handshake-mismatch", 1500, 50000, tier, "C07"),
                  ep("lifecycle", 300, 10000, tier, "C07"),
                  ep("limits", 400, 15000, tier, "C07"),
                  dict(family="ep-ideal", n=T(tier, 100, 4000), params={})],
    "handshake: 1..6 (thorough 24) clients connect at once through loss / duplication / delay of handshake frames and targeted loss of the first 0..11 SYNs, SYN-ACKs or ACKs, nonces incl. 0, 2^32-1 and 20-bit wrap values; run twice, the second time with forged frames from spoofed sources (SYN-ACK / ACK / error with nonces that were never issued, verbatim replays of earlier genuine handshake frames incl. SYNs, SYNs for tracked addresses, misdirected frames), followed by an echo of packets of every mode and one of the maximum size. handshake-mismatch: a grid of client/server limits and a raw wrong-version peer. limits (C17's family, run here for its handshake leftovers): more handshakes in flight than the server admits, refusals at SYN time and at activation, refused and disconnected clients coming back from the same address seconds later and staying past every timer of their earlier attempt. ep-ideal: compatible configurations with limits from 3 kB to 2^64-1 must connect, and the SYN / SYN-ACK on the wire must carry each side's configuration capped at 2^32-1. non-trivial: >= 1 forged / duplicated handshake frame reached an endpoint or >= 1 handshake frame lost.",
    "Completion (the first ACK may be lost): an established client that reads a repeated SYN-ACK of its own server answers with an ACK echoing that server nonce by its next step (`synack-to-established-client-not-acknowledged`); an ACK echoing the nonce of a pending handshake, read by the server within the 22 s the handshake stays pending, leads to Connect or to a refusal (`valid-ack-did-not-complete-handshake`). Wire-level reference check at every Connect (server: an ACK echoing a nonce it sent to that address was delivered; client: a SYN-ACK echoing its SYN nonce was delivered), at every handshake Error event (a matching error frame echoing the nonce was delivered), first data frame ids equal the exchanged nonces, at most one Connect per address, no Disconnect / handshake error on an established connection, refusals carry the right error; every SYN delivered to the server is answered within two steps unless the server has a documented reason to ignore it (a connection of that address reported and open, one ended by Disconnect < 21 s ago, a handshake admitted < 23 s ago), and a Connect rests on a SYN-ACK first sent < 23 s earlier (`syn-ignored-without-reason`, `connect-from-expired-handshake`); after every server call, every address whose connection the server has reported and not ended is still known to Server::client() (`established-connection-untracked`). Twin equality of whole histories was dropped (duplicates legitimately change timing); the invariants run on both runs.",
    "history oracle on handshake wire trace + forged-frame injection",
    dict(quick=800, thorough=20000), require=["c07_server_connects_checked", "c07_client_connects_checked", "c07_first_data_frames_checked", "replayed_genuine_handshake_frame", "forged_ack_wrong_nonce", "c07_mismatch_cases_checked", "c07_repeated_synacks_to_established_client", "c07_valid_acks_read_by_server"])

ep_prop("C08",
    lambda tier: [ep("lifecycle", 1500, 60000, tier, "C08", max_clients=T(tier, 4, 16)),
                  ep("disconnect", 600, 20000, tier, "C08"),
                  ep("limits", 300, 10000, tier, "C08"),
                  ep("timers", 300, 10000, tier, "C08"),
                  dict(family="ep-fidelity", n=T(tier, 400, 20000), params={}),
                  dict(family="lifecycle", n=T(tier, 300, 10000), params={"sock_errors": 1, "prop": "C08"})],
    "lifecycle: random interleavings of send / disconnect / disconnect_now / drop / Server::drop / flush on 1..4 (thorough 16) clients and the server, faults on every frame type incl. blackouts, reconnects from the same address 0 ms..30 s after each kind of ending, finished clients stepped on for seconds. non-trivial: a connection reached Connect on the server and ended.",
    "Online automaton over every event returned by step(): Idle -Connect-> Up -Receive*-> Up -Disconnect|Error-> End, Idle -Error-> End, nothing after End; per client object and per address on the server (a new instance only after End; Server::drop counts as End).",
    "online event-stream automaton",
    dict(quick=800, thorough=20000), require=["srv_connect", "srv_disconnect", "cli_disconnect", "client_objects_created"],
    also=["C07:established-connection-untracked"])

ep_prop("C09",
    lambda tier: [ep("disconnect", 2500, 80000, tier, "C09"),
                  ep("lifecycle", 800, 30000, tier, "C09"),
                  ep("timers", 1500, 50000, tier, "C09")],
    "timers (see C10; here judged by the C09 oracles): disconnect attempts 0 ms..10 s after Connect whose first 0..11 or all requests are lost, active timeouts of 1..120 s, step cadences up to 1 s, so that an answer can arrive in the very gap before a deadline. disconnect: one side queues 0..500 packets of all modes (<= 20 kB) and calls disconnect(), with loss / duplication / delay of data, acks, Disconnect and DisconnectAck, blackouts (one or both ways) right after the call, both sides calling in 15 % of the cases; 30 % short sessions (call 50..1900 ms in), 30 % with the first 1..3 DisconnectAcks lost, 35 % ending with zero-length Reliable markers. non-trivial: a flush obligation (Reliable packet queued before the call) was checked, or a Disconnect exchange took place with queued data.",
    "History check: the peer's Disconnect event comes after the Receive of every Reliable packet submitted before disconnect() (void if the peer disconnected / dropped first, or the caller escalated to disconnect_now / drop); both ends reach a terminal event within 22 s (or their active timeout) + 12 step intervals of the first Disconnect frame (an endpoint whose own request went out later gets the budget of its own request); disconnect_now() puts the request on the wire by the caller's next step; a passively closed peer answers every repeated request delivered to it in the 18 s after its Disconnect event (so a reachable peer never leaves the caller to time out); an endpoint whose own request is on the wire and which then reads a Disconnect or DisconnectAck from its peer ends with Disconnect, never with Error(Timeout) (`timeout-although-peer-answered`); nothing after the terminal event (C08 automaton).",
    "history oracle on event order and virtual-time budget",
    dict(quick=800, thorough=20000), require=["c09_flush_obligations_checked", "c09_disconnect_exchanges", "c09_disconnect_now_checked", "c09_repeated_requests_to_lingering_peer", "c09_zero_length_obligations", "c09_disconnect_attempt_timeouts_checked"])

ep_prop("C10",
    lambda tier: [ep("timers", 3000, 100000, tier, "C10")],
    "timers: one client and a server with active timeouts 1..120 s (8 % of the non-idle scenarios: one or both sides configured with 'never' — 2^64-1, 2^64-2, 2^64-20000, 2^63, 2^63-1, ... — also for the keepalive interval), keepalive on/off with intervals 0.5..30 s, SYN / SYN-ACK / ACK lost 0..11 times (handshakes lasting 0..22 s), step cadences 1 ms..1 s, busy then idle phases, a total or one-way blackout from a random moment; in 40 % of scenarios one side calls disconnect / disconnect_now 0 ms..10 s after its Connect event (also while a handshake resend timer may still be pending) and the first 0..11 or all of its Disconnect requests are lost; 15 % are the plain keepalive case: a short exchange in both directions, then 1..3 minutes idle on a loss-free network with keepalive on both sides or on one side only (a keepalive is answered, which supplies both ends), small steps and latencies. non-trivial: a timeout fired, a disconnect attempt was judged, or the connection stayed idle for >= 3 timeouts.",
    "Reference timer model from the relayed frames and step times: Error(Timeout) on an established connection only at a step where the last read of a Data/Ack/Sync frame (or the establishing handshake frame) is >= active_timeout_ms ago, and at the first such step; handshake attempts end with Timeout after exactly 1+10 SYNs and not before 22 s; server-side pending entries after 11 SYN-ACKs; SYN resends never closer than 2 s; disconnect attempts: requests never closer than 2 s, at most 1+10 of them, Error(Timeout) only after all 11 and not before 22 s after the first, nor later than that plus 12 steps; with keepalive on (both directions inside the documented max(interval, 2 s, RTO) pace, RTO as observed; or, for steps <= 100 ms and latency <= 50 ms, inside max(interval, 2 s) + 3.5 s without reference to the endpoints' own RTO, which is at most 2 s there a priori) an idle connection on a network that lost nothing after the handshake never times out.",
    "reference timer model over recorded deliveries and step times",
    dict(quick=1500, thorough=30000), require=["c10_timeouts_checked", "c10_handshake_timeouts_checked", "c10_keepalive_cases_checked", "c10_keepalive_cases_checked_fast_domain", "c10_keepalive_cases_one_sided", "c10_disconnect_attempts_checked", "c10_disconnect_timeouts_checked", "c10_never_timeout_configurations"])

ep_prop("C17",
    lambda tier: [ep("limits", 2500, 80000, tier, "C17")],
    "limits: max_active 1..8, max_total up to 16 (in a quarter of the scenarios below max_active: both only have to be positive), 1..40 clients arriving in bursts, staggered or in waves; all first ACKs lost (many SYNs before any ACK), lossy handshakes; connections ended by disconnect from either side (30 % crossing: both applications close at the same moment), Client drop, Server::drop or silent death (timeout); clients that disconnected come back from the same address 0.1..9 s later and stay; a late wave of max_total+2 handshakes from fresh addresses whose ACKs are all lost arrives 26..48 s in (after the server's 20 s memory of ended connections has expired); finally everything ends and, 50 s later, a fresh client must connect. non-trivial: more clients than max_active and >= 1 connection ended by the script.",
    "Counters after every server call: connections between Connect and their terminal event / the server's own Disconnect <= max_active_connections; addresses for which Server::client() is Some <= max_total_connections; ServerFull refusals are mirrored by server error events when enabled; capacity is available again after everything ended. Offline admission check from wire + events only (independent of the server's own table): at every newly admitted handshake (fresh SYN-ACK nonce pair) the established connections plus the handshakes provably in progress (same SYN-ACK repeated later / Connect later) number < max_total_connections; conversely every ServerFull refusal needs a reason: an upper bound of what the server can still hold at that instant (reported and not ended, ended by the peer's Disconnect < 20 s ago, admitted < 22 s ago) must reach a limit (`refused-although-capacity-free`: entries kept beyond their documented lifetime show here).",
    "online counters over the server's event stream and public lookup",
    dict(quick=1200, thorough=30000), require=["c17_refused_with_serverfull", "c17_capacity_reuse_checked", "c17_connections_ended_by_script", "c17_admissions_checked", "c17_reconnects_from_same_address", "c17_late_wave_handshakes", "c17_refusals_checked", "c17_crossing_disconnects"],
    also=["C07:established-connection-untracked"])

ep_prop("C18",
    lambda tier: [ep("amplify", 3000, 100000, tier, "C18"),
                  ep("handshake", 200, 10000, tier, "C18"),
                  ep("limits", 200, 10000, tier, "C18")],
    "amplify: 1..30 spoofable addresses each send 1..25 datagrams over 28 s: valid SYNs (same and fresh nonce), wrong-version and configuration-refused SYNs, SYN-typed datagrams of every length 5..1471 with a valid CRC, oversized datagrams, stray frames of every other type; the shortest datagrams there are (0..8 bytes of zeros / ones / the CRC of nothing), flooders (a valid SYN then 50..400 small frames of one type, also numbered from the SYN's own nonce); default and full servers, one in five configured with an active timeout of 2 min..1 h and watched for 10 min (otherwise 55 s, so every SYN-ACK resend happens); the server application greets new connections with 0..8 kB; in a third of the scenarios (and every long one) the server application stalls 1..4 times for 2..23 s, so that timers come due late and together. non-trivial: the server sent >= 1 byte to a spoofable address.",
    "An address has completed the handshake when an ACK echoing a nonce the server sent it has been delivered AND the server has accepted it (Connect): an address whose ACK is refused (server full at activation) stays unverified; on-path flooders answer the SYN-ACK with the right nonce 100..3000 times, also at servers that filled up between their SYN and their ACK. Per-address byte counters kept by the virtual network, checked after every server call: for an address from which no ACK echoing a nonce the server sent it has been delivered (verification is taken from the wire, not from the server's own Connect), bytes sent to it stay below bytes received from it; an address that only sent undersized SYN-typed datagrams receives nothing.",
    "byte-accounting monitor at the virtual socket",
    dict(quick=1500, thorough=30000), require=["amp_undersized_syn", "amp_valid_syn_same_nonce", "c18_addresses_that_got_a_reply", "c18_undersized_only_addresses_checked", "amp_valid_nonce_acks", "amp_servers_filled_after_handshakes_were_admitted"])

# endpoint-level workloads join C03 and C11
_c03_runs = PROPS["C03"]["runs"]
PROPS["C03"]["runs"] = lambda tier: _c03_runs(tier) + [
    dict(family="ep-hostile", n=T(tier, 300, 10000), params={"frames": 600}),
    dict(family="ep-hostile", n=T(tier, 200, 5000), params={"frames": 600}, flavour="checked"),
    dict(family="lifecycle", n=T(tier, 200, 5000), params={}, flavour="checked"),
    dict(family="handshake", n=T(tier, 100, 3000), params={}, flavour="checked"),
    dict(family="amplify", n=T(tier, 200, 5000), params={}, flavour="checked"),
    dict(family="timers", n=T(tier, 200, 5000), params={}, flavour="checked"),
    dict(family="lifecycle", n=T(tier, 200, 6000), params={"sock_errors": 1}),
    dict(family="lifecycle", n=T(tier, 150, 4000), params={"sock_errors": 1}, flavour="checked"),
    dict(family="ep-ideal", n=T(tier, 60, 2000), params={"tiny_rates": 1}),
    dict(family="ep-ideal", n=T(tier, 60, 2000), params={"tiny_rates": 1}, flavour="checked"),
    # (the ordinary configurations of ep-ideal: limits and rates up to 2^64-1; found defect #27)
    dict(family="ep-ideal", n=T(tier, 100, 3000), params={}, flavour="checked"),
]
PROPS["C03"]["rule"] += (" ep-hostile: a real Server with an honest bystander client, attacked by a raw peer that completes the handshake by hand (hostile limits incl. 0 and 2^32-1) and then sends "
                         "frames composed against the server-side connection state, plus spoofed strangers; or a real Client facing a raw hostile server. After the attack the bystander must still be "
                         "connected and delivering, and a fresh client must connect within 30 s. lifecycle with sock_errors: the virtual socket refuses every n-th send (n from {2, 3, 7, 20, 100}: the frame is not transmitted and uflow is told so) and fails every m-th receive call (m from {2, 3, 5, 17, 50}: the receive loop of that step ends early), as ENOBUFS / ECONNREFUSED do on a real socket. ep-ideal with tiny_rates: honest endpoints whose configured rates are legal but below one frame per second (1, 2, 22, 23, 24, 100, 1000, 1471 B/s).")
PROPS["C03"]["require_counters"] += ["c03_honest_bystanders_checked", "c03_post_attack_connects_checked", "c03_hostile_server_sessions", "socket_send_errors_injected", "socket_recv_errors_injected"]
_c01_runs = PROPS["C01"]["runs"]
PROPS["C01"]["runs"] = lambda tier: _c01_runs(tier) + [ep("lifecycle", 300, 10000, tier, "C01"), ep("disconnect", 300, 10000, tier, "C01"), dict(family="ep-fidelity", n=T(tier, 300, 10000), params={})]
PROPS["C01"]["rule"] += FID
PROPS["C01"]["rule"] += (" lifecycle / disconnect (real Client/Server sessions): every packet an application is handed was submitted by the peer on that address pair and is handed over at most once "
                         "(Event::Receive carries no channel, so order is judged at the HalfConnection level only).")
PROPS["C01"]["require_counters"] += ["ep_receives_checked"]
_c11_runs = PROPS["C11"]["runs"]
PROPS["C11"]["runs"] = lambda tier: _c11_runs(tier) + [ep("ep-recover", 400, 15000, tier, "C11")]
PROPS["C11"]["rule"] += (" ep-recover: real Client/Server sessions (timeouts 20 s, keepalive 2 s) hit by one finite fault (first handshake ACKs lost, a blackout or loss burst of 0.1..6 s, loss at the start); afterwards the "
                         "connection must still be alive at +120 s and probe packets of each mode submitted 30..60 s after the network turned fair must arrive once the backlog has drained.")
PROPS["C11"]["require_counters"] += ["c11_established_connections_watched"]

for _p in ("C05", "C08", "C19"):
    PROPS[_p]["rule"] += FID
PROPS["C08"]["rule"] += " lifecycle with sock_errors: the same sessions while the (virtual) operating system refuses every n-th send and fails every m-th receive call; only the event-stream, payload, crash and heap oracles are applied to those runs."

# ---------------------------------------------------------------------------------------------
# send errors of the operating system's socket (ninth round): the same endpoint families with a
# send-fault plan — every n-th send of one or both sides refused, and / or bursts of 1 ms..5 s in
# which every send of a side is refused; the socket works again after 40 s. The endpoint is told
# about each failure (uflow ignores it: a refused send is a lost frame that still uses up its
# resend / credit); the frame is in the wire trace as a dropped frame flagged `refused`. Every
# oracle stays on: "first transmitted" clauses use what was really transmitted, "gave up before the
# budget" clauses count attempts, byte accounting (C13, C18) leaves refused frames out.
SE = {"send_errors": 1}
def _add_runs(pid, extra, rule, counters):
    prev = PROPS[pid]["runs"]
    PROPS[pid]["runs"] = lambda tier, prev=prev, extra=extra: prev(tier) + extra(tier)
    PROPS[pid]["rule"] += rule
    PROPS[pid]["require_counters"] += counters
SE_RULE = (" send_errors runs: the same sessions while the (virtual) operating system refuses sends of one or both endpoints (every 2nd..100th send, and / or bursts of 1 ms..5 s in which every send of a side fails; "
           "the socket recovers after 40 s). A refused send is told to the endpoint and recorded as an attempted, untransmitted frame; all oracles of the family stay on.")
_add_runs("C03", lambda tier: [dict(family="lifecycle", n=T(tier, 150, 5000), params=dict(SE), flavour="checked"),
                               dict(family="timers", n=T(tier, 150, 5000), params=dict(SE), flavour="checked"),
                               dict(family="limits", n=T(tier, 100, 3000), params=dict(SE), flavour="checked")], SE_RULE, ["sends_refused_by_the_socket"])
_add_runs("C07", lambda tier: [ep("lifecycle", 200, 8000, tier, "C07", **SE), ep("limits", 200, 8000, tier, "C07", **SE)], SE_RULE, ["sends_refused_by_the_socket"])
_add_runs("C08", lambda tier: [ep("lifecycle", 400, 15000, tier, "C08", **SE), ep("disconnect", 200, 8000, tier, "C08", **SE)], SE_RULE, ["sends_refused_by_the_socket"])
_add_runs("C09", lambda tier: [ep("disconnect", 800, 30000, tier, "C09", **SE), ep("timers", 600, 20000, tier, "C09", **SE), ep("lifecycle", 300, 10000, tier, "C09", **SE)], SE_RULE, ["sends_refused_by_the_socket"])
_add_runs("C10", lambda tier: [ep("timers", 1200, 40000, tier, "C10", **SE)], SE_RULE + " (The keepalive clause, whose premise is a loss-free path, is not judged in these runs.)", ["sends_refused_by_the_socket"])
_add_runs("C13", lambda tier: [dict(family="ep-ideal", n=T(tier, 150, 6000), params=dict(SE))], SE_RULE + " (ep-ideal with send errors: only the byte accounting, crash, payload and heap verdicts are kept; refused frames are not counted as transmitted bytes.)", ["sends_refused_by_the_socket"])
_add_runs("C14", lambda tier: [dict(family="ep-ideal", n=T(tier, 100, 4000), params=dict(SE))], SE_RULE, ["sends_refused_by_the_socket"])
_add_runs("C17", lambda tier: [ep("limits", 800, 30000, tier, "C17", **SE)], SE_RULE, ["sends_refused_by_the_socket"])
_add_runs("C18", lambda tier: [ep("amplify", 800, 30000, tier, "C18", **SE), ep("limits", 150, 6000, tier, "C18", **SE)], SE_RULE + " (Bytes of refused sends were never transmitted and are not counted.)", ["sends_refused_by_the_socket"])
_add_runs("C19", lambda tier: [dict(family="lifecycle", n=T(tier, 150, 5000), params=dict(SE)), dict(family="limits", n=T(tier, 60, 2000), params=dict(SE))], SE_RULE, ["sends_refused_by_the_socket"])
_add_runs("C01", lambda tier: [ep("lifecycle", 150, 5000, tier, "C01", **SE)], SE_RULE, ["sends_refused_by_the_socket"])

# receive errors of the socket with every oracle on (tenth round): every 5th / 17th / 50th receive
# call of one or both sides fails, and / or bursts of 1 ms..1.5 s in which every receive call of a
# side fails (ECONNREFUSED after an ICMP error, EINTR): the endpoint's receive loop of that step
# ends, nothing is consumed, the queue waits for the next step. Nothing is lost, so even the
# ideal-network clauses keep their premise; clauses that speak about the step that READ a frame use
# the observed read time (the harness watches the length of every socket's FIFO queue).
RE = {"recv_errors": 1}
RE_RULE = (" recv_errors runs: the same sessions while receive calls of one or both endpoints' sockets fail (every 5th..50th call and / or bursts of 1 ms..1.5 s; nothing is consumed by a failing call, "
           "the socket recovers after 40 s); all oracles of the family stay on, 'read by' clauses use the observed read time of each datagram.")
_add_runs("C03", lambda tier: [dict(family="timers", n=T(tier, 100, 3000), params=dict(RE), flavour="checked"), dict(family="ep-ideal", n=T(tier, 60, 2000), params=dict(RE), flavour="checked")], RE_RULE, ["receive_calls_failed_by_the_socket"])
_add_runs("C05", lambda tier: [dict(family="ep-ideal", n=T(tier, 150, 6000), params=dict(RE))], RE_RULE, ["receive_calls_failed_by_the_socket"])
_add_runs("C07", lambda tier: [ep("lifecycle", 200, 8000, tier, "C07", **RE), ep("limits", 200, 8000, tier, "C07", **RE)], RE_RULE, ["receive_calls_failed_by_the_socket"])
_add_runs("C08", lambda tier: [ep("lifecycle", 300, 10000, tier, "C08", **RE)], RE_RULE, ["receive_calls_failed_by_the_socket"])
_add_runs("C09", lambda tier: [ep("disconnect", 500, 20000, tier, "C09", **RE), ep("timers", 400, 15000, tier, "C09", **RE)], RE_RULE, ["receive_calls_failed_by_the_socket"])
_add_runs("C10", lambda tier: [ep("timers", 1000, 30000, tier, "C10", **RE)], RE_RULE + " (The keepalive clause is not judged in these runs.)", ["receive_calls_failed_by_the_socket"])
_add_runs("C13", lambda tier: [dict(family="ep-ideal", n=T(tier, 100, 4000), params=dict(RE))], RE_RULE, ["receive_calls_failed_by_the_socket"])
_add_runs("C17", lambda tier: [ep("limits", 500, 20000, tier, "C17", **RE)], RE_RULE, ["receive_calls_failed_by_the_socket"])
_add_runs("C18", lambda tier: [ep("amplify", 500, 20000, tier, "C18", **RE)], RE_RULE, ["receive_calls_failed_by_the_socket"])
_add_runs("C19", lambda tier: [dict(family="lifecycle", n=T(tier, 100, 4000), params=dict(RE))], RE_RULE, ["receive_calls_failed_by_the_socket"])

# tenth round: workloads added inside existing families (no new runs), with the counters that
# prove they were reached
def _note(pid, rule, counters):
    PROPS[pid]["rule"] += rule
    PROPS[pid]["require_counters"] += counters
_note("C02", " One cadence in 24 is a busy loop (every step interval below one millisecond: fixed 250 us, or 20..900 us).", [])
_note("C05", " ideal family, 15 %: an application that stops calling step() for 2..12 s while multi-fragment packets are on their way to it over a connection with a frame window of 4..64 (the sender is frame-window-limited in mid-packet and its sync timer runs). ep-ideal, a fifth of the sessions: a predecessor that never got beyond its SYN (a client with other limits started at the address and dropped at once; the half-open handshake is still pending when the client proper starts 2.5..15 s later).", ["ep_ideal_sessions_after_a_half_open_handshake"])
_note("C06", " ep-ideal, a fifth of the sessions: the client proper starts 2.5..15 s after another client with much larger limits sent a SYN from the same address and went away: nothing of the first SYN may stick to the connection that is made.", ["ep_ideal_sessions_after_a_half_open_handshake"])
_note("C07", " limits, a quarter of the sessions: the server's refusals travel 2.1..9 s longer than everything else, so that a refused client's SYN resend may have been accepted before the refusal of its first SYN arrives; `handshake-error-on-established-client`: a client object that reported Connect never reports a handshake error afterwards (every epsim family). `server-nonces-predictable` (every epsim family): the distinct server nonces of a session against the guesses of an observer of two earlier handshakes.", ["refusals_delayed_past_the_next_syn_resend", "c07_connected_client_objects_watched_for_handshake_errors", "c07_server_nonces_tested_for_predictability"])
_note("C09", " disconnect family: receive allocations of 21, 30 and 69 whole fragments (exact multiples of 1448, small enough for the queued data to fill them) next to 100 kB and 1 MB.", [])
_note("C10", " 8 % of the timers scenarios are successor connections: 1..3 earlier connections from the same address (established, used, closed by the server or by the client, forgotten or still remembered), with or without an unrelated bystander client, then the connection proper: a short exchange and 40..120 s idle on a loss-free network with keepalive on both sides; both ends judged by the active-timeout model on the observed read times.", ["c10_successor_connections_checked"])
_note("C11", " blackout family, a fifth of the scenarios: the other side, stepped every 3..5 ms, has a backlog of full-size frames of its own at a ceiling of 1472 B/s that lasts 1..5 min beyond the fault, so that what it owes the blocked sender has to get out although its credit is spent nearly all the time.", [])
_note("C15", " A third of the ack-twin scenarios include floods: 30..45 ack frames of 150 groups each (more groups than a frame window holds, unknown ids or wrong parity) handed over in one step ahead of the genuine acknowledgements.", ["inj_ack_group_floods"])
_note("C17", " One server in eight is stepped a little less often than its own active timeout (1..3 s), so that at the start of each step every established connection's deadline has passed and is pushed forward by the frames that step reads; a quarter of the sessions have delayed refusals (see C07).", ["c17_servers_stepped_less_often_than_their_active_timeout"])
_note("C18", " Slow drip (long runs and 12 % of the others, watched for 10 min): a valid SYN, then one small frame (Disconnect, wrong-nonce ACK, data, sync, DisconnectAck) every 5..20 s for minutes.", ["amp_slow_drip_addresses"])
