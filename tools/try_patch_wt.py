#!/usr/bin/env python3
"""Like tools/try_patch.py, but leaves /repo's working tree alone (for use while something else is
running against /repo): the patch is applied in a scratch git worktree of /repo's HEAD, and the
checks run from a scratch copy of /verif whose harness depends on that worktree.

   tools/try_patch_wt.py <patch.diff | worktree-with-the-change> <ID> [<ID> ...] [--tier quick|thorough] [--seed N] [--slot K]

--slot K (default 0) names the scratch directories (/tmp/vtry-K/...), so several can run at once.
Scratch worktree, copy and build output are removed afterwards (the shared cargo target directory
/tmp/vtry-target-K is kept between calls and can be deleted at any time).
Exit 0 if any check reported a violation (exit 1), 3 otherwise."""
import os, shutil, subprocess, sys
args = sys.argv[1:]
tier, seed, slot = "quick", "1", "0"
for flag in ("--tier", "--seed", "--slot"):
    if flag in args:
        i = args.index(flag)
        v = args[i + 1]
        del args[i:i + 2]
        if flag == "--tier": tier = v
        elif flag == "--seed": seed = v
        else: slot = v
src, ids = os.path.abspath(args[0]), args[1:]
base = "/tmp/vtry-%s" % slot
wt, vcopy, target = base + "/repo", base + "/verif", "/tmp/vtry-target-%s" % slot
def run(cmd, **kw): return subprocess.run(cmd, capture_output=True, text=True, **kw)
def cleanup():
    run(["git", "-C", "/repo", "worktree", "remove", "--force", wt])
    shutil.rmtree(base, ignore_errors=True)
    run(["git", "-C", "/repo", "worktree", "prune"])
cleanup()
os.makedirs(base)
try:
    r = run(["git", "-C", "/repo", "worktree", "add", "--detach", wt, "HEAD"])
    if r.returncode != 0:
        sys.exit("cannot create worktree: " + r.stderr)
    if os.path.isdir(src):
        patch = base + "/patch.diff"
        open(patch, "w").write(run(["git", "-C", src, "diff", "--", "src"]).stdout)
    else:
        patch = src
    r = run(["git", "-C", wt, "apply", patch])
    if r.returncode != 0:
        sys.exit("patch does not apply: " + r.stderr)
    shutil.copytree(os.environ.get("VERIF_SRC", "/verif"), vcopy, ignore=shutil.ignore_patterns(".git", "target*", "evidence", "replays", "verif-try-*", "seeded"))
    ct = vcopy + "/harness/Cargo.toml"
    t = open(ct).read()
    assert 'path = "/repo"' in t
    open(ct, "w").write(t.replace('path = "/repo"', 'path = "%s"' % wt))
    out = base + "/out"
    os.makedirs(target, exist_ok=True)
    os.symlink(target, vcopy + "/harness/target")
    env = dict(os.environ, VERIF_OUT=out, VERIF_SEED=seed)
    results = []
    for pid in ids:
        p = subprocess.run([vcopy + "/check", pid, "--tier", tier, "--seed", seed], capture_output=True, text=True, env=env, cwd=vcopy)
        lines = [l for l in p.stdout.splitlines() if l.startswith(("VIOLATION", "INCONCLUSIVE", "OK "))]
        detail = [l for l in p.stdout.splitlines() if l.startswith("  ") and "observations attributed" not in l]
        print("%s exit=%d %s" % (pid, p.returncode, lines[0] if lines else (p.stdout + p.stderr)[-400:].replace("\n", " | ")))
        for d in detail[:2]:
            print("     " + d.strip()[:400])
        results.append(p.returncode)
finally:
    cleanup()
sys.exit(0 if any(rc == 1 for rc in results) else 3)
