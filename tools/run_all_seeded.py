#!/usr/bin/env python3
"""Runs every seeded change under /verif/seeded against the check of the property it breaks and
prints a table: caught (exit 1) or MISSED. Quick tier unless --tier thorough. Never writes to
/verif/evidence (tools/try_patch.py redirects output)."""
import glob, json, os, re, subprocess, sys
tier = "thorough" if "--tier" in sys.argv and sys.argv[sys.argv.index("--tier") + 1] == "thorough" else "quick"
only = [a for a in sys.argv[1:] if re.match(r"^C\d\d", a)]
rows = []
jobs = []
for d in sorted(glob.glob("/verif/seeded/C??-agent*")):
    pid = os.path.basename(d)[:3]
    jobs.append((os.path.basename(d), os.path.join(d, "patch.diff"), pid))
for f in sorted(glob.glob("/verif/seeded/hand/M*.diff")):
    m = re.match(r"M\d+_(C\d\d)_", os.path.basename(f))
    jobs.append(("hand/" + os.path.basename(f), f, m.group(1)))
for name, patch, pid in jobs:
    if only and pid not in only:
        continue
    p = subprocess.run(["python3", "/verif/tools/try_patch.py", patch, pid, "--tier", tier], capture_output=True, text=True)
    first = (p.stdout.splitlines() or [""])[0]
    ok = " exit=1 " in first
    det = (p.stdout.splitlines()[1].strip()[:110] if ok and len(p.stdout.splitlines()) > 1 else first[:110])
    print("%-34s %-4s %-7s %s" % (name, pid, "caught" if ok else "MISSED", det), flush=True)
    rows.append(ok)
print("%d of %d caught" % (sum(rows), len(rows)))
sys.exit(0 if all(rows) else 1)
