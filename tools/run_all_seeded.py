#!/usr/bin/env python3
"""Runs every seeded change under /verif/seeded against the check of the property it breaks and
prints a table: caught (exit 1) or MISSED. Quick tier unless --tier thorough. Never writes to
/verif/evidence and never touches /repo's working tree (tools/try_patch_wt.py: scratch worktrees). --jobs N."""
import glob, json, os, re, subprocess, sys
tier = "thorough" if "--tier" in sys.argv and sys.argv[sys.argv.index("--tier") + 1] == "thorough" else "quick"
only = [a for a in sys.argv[1:] if re.match(r"^C\d\d", a)]
rows = []
jobs = []
for d in sorted(glob.glob("/verif/seeded/C??-agent*")):
    pid = os.path.basename(d)[:3]
    jobs.append((os.path.basename(d), os.path.join(d, "patch.diff"), pid))
for f in sorted(glob.glob("/verif/seeded/hand/M*.diff")):
    m = re.match(r"M\d+_(C\d\d)_", os.path.basename(f))
    jobs.append(("hand/" + os.path.basename(f), f, m.group(1)))
import concurrent.futures, queue
njobs = int(sys.argv[sys.argv.index("--jobs") + 1]) if "--jobs" in sys.argv else 4
slots = queue.Queue()
for k in range(njobs):
    slots.put(k)
def work(job):
    name, patch, pid = job
    slot = slots.get()
    try:
        # scratch worktree + scratch copy of /verif: /repo's working tree is never touched
        p = subprocess.run(["python3", os.path.join(os.environ.get("VERIF_SRC", "/verif"), "tools/try_patch_wt.py"), patch, pid, "--tier", tier, "--slot", str(10 + slot)], capture_output=True, text=True)
    finally:
        slots.put(slot)
    lines = [l for l in p.stdout.splitlines() if not l.startswith("WARNING")]
    first = lines[0] if lines else p.stderr[-200:]
    ok = " exit=1 " in first
    det = (lines[1].strip()[:110] if ok and len(lines) > 1 else first[:110])
    return name, pid, ok, det
jobs = [j for j in jobs if not only or j[2] in only]
with concurrent.futures.ThreadPoolExecutor(max_workers=njobs) as ex:
    for name, pid, ok, det in ex.map(work, jobs):
        print("%-34s %-4s %-7s %s" % (name, pid, "caught" if ok else "MISSED", det), flush=True)
        rows.append(ok)
print("%d of %d caught" % (sum(rows), len(rows)))
sys.exit(0 if all(rows) else 1)
