#!/usr/bin/env python3
"""Regenerates /verif/MANIFEST.json from props.py (claimed checks) + the fixed property list."""
import json, os, sys, subprocess
ROOT = os.path.dirname(os.path.dirname(os.path.abspath(__file__)))
sys.path.insert(0, ROOT)
from props import PROPS
ids = [json.loads(l)["id"] for l in open(os.path.join(ROOT, "properties.jsonl"))]
hook_commits = []
try:
    out = subprocess.run(["git", "-C", "/repo", "log", "--format=%H %s"], capture_output=True, text=True).stdout
    hook_commits = [l.split()[0] for l in out.splitlines() if l.split(" ", 1)[1].startswith("verif:")]
except Exception:
    pass
checks, na = [], []
for pid in ids:
    p = PROPS.get(pid)
    if p is None or p.get("unclaimed"):
        na.append(dict(property_id=pid, reason=(p or {}).get("unclaimed", "check not built yet in this session (work in progress; see DESIGN.md section 6 for the planned monitor)")))
        continue
    checks.append(dict(
        property_id=pid,
        quick_cmd="./check %s --tier quick" % pid,
        thorough_cmd="./check %s --tier thorough" % pid,
        evidence_file="/verif/evidence/%s.json" % pid,
        replay_cmd_template="./check %s --replay {path}" % pid,
        engine=p.get("engine", "uverif"),
        level_claimed=dict(category="exploration", text=p["level_text"], design_ref=p.get("design_ref", "DESIGN.md section 6 / " + pid)),
        level_note=p["level_note"],
        technique=p["technique"],
    ))
m = dict(
    version=1,
    setup_cmd="cd /verif/harness && cp -n /repo/Cargo.lock . ; CARGO_NET_OFFLINE=true cargo build --release --offline && CARGO_NET_OFFLINE=true cargo build --profile checked --offline",
    hooks=dict(guard="verif (cargo feature of the uflow crate, off by default)",
               enable="harness/Cargo.toml: uflow = { path = \"/repo\", features = [\"verif\"] }",
               baseline_off_cmd="cd /repo && cargo test --workspace --no-fail-fast --offline",
               source_commits=hook_commits, add_only=True),
    engines=[
        dict(name="uverif", path="/verif/harness", serves_properties=[c["property_id"] for c in checks],
             kind_free_text="Rust worker binary linking the real uflow crate (feature verif): virtual clock/socket/rng, checking global allocator, scenario simulators (hcsim, epsim), component drivers, history oracles; driven by the Python script ./check which shards scenarios over 16 cores, merges monitor verdicts, applies known_findings.json and writes evidence"),
    ],
    checks=checks,
    not_applicable=na,
    notes="Technique family: runtime monitoring and sanitizers. Every verdict is 'held on the executions listed in the evidence file', 'violated (replay file)' or 'inconclusive' (exit 2). See DESIGN.md.",
)
json.dump(m, open(os.path.join(ROOT, "MANIFEST.json"), "w"), indent=1)
print("claimed:", [c["property_id"] for c in checks]); print("unclaimed:", [x["property_id"] for x in na])
