#!/usr/bin/env python3
"""Independent confirmation of a seeded change in its own scratch worktree:
   tools/confirm_mutant.py <worktree> <mutant_dir>
   - patch applies to a clean checkout, crate builds, unit tests pass with the change
   - the demonstration FAILS with the change and PASSES without it
Prints a JSON summary."""
import subprocess, sys, os, json, shutil, glob
wt, md = sys.argv[1], sys.argv[2]
def run(cmd, **kw):
    p = subprocess.run(cmd, cwd=wt, capture_output=True, text=True, **kw)
    return p.returncode, (p.stdout + p.stderr)
res = {}
run(["git", "checkout", "--", "src"])
rc, out = run(["git", "apply", "--check", os.path.join(md, "patch.diff")])
res["applies"] = rc == 0
run(["git", "apply", os.path.join(md, "patch.diff")])
demo = [f for f in glob.glob(os.path.join(md, "*.rs"))]
res["demo_files"] = [os.path.basename(d) for d in demo]
os.makedirs(os.path.join(wt, "tests"), exist_ok=True)
for d in demo:
    shutil.copy(d, os.path.join(wt, "tests", "mutant_demo.rs"))
rc, out = run(["cargo", "build", "--offline"]); res["builds"] = rc == 0
rc, out = run(["cargo", "test", "--lib", "--offline"]); res["unit_tests_pass"] = rc == 0
res["unit_tests_line"] = [l for l in out.splitlines() if l.startswith("test result")][:1]
rc, out = run(["cargo", "test", "--offline", "--features", "verif", "--test", "mutant_demo"])
res["demo_fails_with_change"] = rc != 0
res["demo_with_change"] = [l for l in out.splitlines() if l.startswith("test ") or "panicked" in l][:6]
run(["git", "checkout", "--", "src"])
rc, out = run(["cargo", "test", "--offline", "--features", "verif", "--test", "mutant_demo"])
res["demo_passes_without_change"] = rc == 0
res["demo_without_change"] = [l for l in out.splitlines() if l.startswith("test result")][:2]
res["confirmed"] = all([res["applies"], res["builds"], res["unit_tests_pass"], res["demo_fails_with_change"], res["demo_passes_without_change"]])
print(json.dumps(res, indent=1))
