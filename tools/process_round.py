#!/usr/bin/env python3
"""Confirm and try a whole round of sub-agent changes without touching /repo's working tree.
   tools/process_round.py <suffix> [--jobs N]      e.g. suffix d for /tmp/mut/C01d ... /tmp/mut/C20d
For every /tmp/mut/C??<suffix>/MUTANT/patch.diff: tools/confirm_mutant.py in the agent's own
worktree, then tools/try_patch_wt.py against the check of the property. Prints one line each."""
import concurrent.futures, glob, json, os, re, subprocess, sys
suffix = sys.argv[1]
jobs = int(sys.argv[sys.argv.index("--jobs") + 1]) if "--jobs" in sys.argv else 4
dirs = sorted(d for d in glob.glob("/tmp/mut/C??%s" % suffix) if os.path.exists(d + "/MUTANT/patch.diff"))
slots = list(range(jobs))
import queue
q = queue.Queue()
for s in slots:
    q.put(s)
def work(d):
    pid = os.path.basename(d)[:3]
    cj = d + ".confirm.json"
    if not os.path.exists(cj) or '"confirmed"' not in open(cj).read():
        p = subprocess.run(["python3", "/verif/tools/confirm_mutant.py", d, d + "/MUTANT"], capture_output=True, text=True)
        open(cj, "w").write(p.stdout)
    try:
        txt = open(cj).read()
        confirmed = json.loads(txt[txt.index("{"):]).get("confirmed")
    except Exception:
        confirmed = None
    slot = q.get()
    try:
        p = subprocess.run(["python3", "/verif/tools/try_patch_wt.py", d + "/MUTANT/patch.diff", pid, "--slot", str(slot)], capture_output=True, text=True)
    finally:
        q.put(slot)
    lines = [l for l in p.stdout.splitlines() if not l.startswith("WARNING")]
    first = lines[0] if lines else p.stderr[-200:]
    det = lines[1].strip()[:160] if len(lines) > 1 else ""
    return "%s confirmed=%s %s | %s" % (os.path.basename(d), confirmed, "caught" if " exit=1 " in first else "MISSED " + first[:80], det)
with concurrent.futures.ThreadPoolExecutor(max_workers=jobs) as ex:
    for line in ex.map(work, dirs):
        print(line, flush=True)
