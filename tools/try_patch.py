#!/usr/bin/env python3
"""Apply a seeded change to /repo, run checks against it, undo it.

   tools/try_patch.py <patch.diff> <ID> [<ID> ...] [--tier quick|thorough] [--seed N]

Evidence and replay files of these runs go to a scratch directory, never to /verif/evidence.
Prints one line per check: <ID> exit=<code> <first VIOLATION / verdict line>."""
import os, subprocess, sys, tempfile, shutil
args = sys.argv[1:]
tier, seed = "quick", "1"
if "--tier" in args:
    i = args.index("--tier"); tier = args[i + 1]; del args[i:i + 2]
if "--seed" in args:
    i = args.index("--seed"); seed = args[i + 1]; del args[i:i + 2]
patch, ids = os.path.abspath(args[0]), args[1:]
def git(*a): return subprocess.run(["git", "-C", "/repo"] + list(a), capture_output=True, text=True)
if git("status", "--porcelain", "--untracked-files=no").stdout.strip():
    sys.exit("refusing: /repo has uncommitted changes")
r = git("apply", "--check", patch)
if r.returncode != 0:
    sys.exit("patch does not apply: " + r.stderr)
git("apply", patch)
out = tempfile.mkdtemp(prefix="verif-try-", dir="/verif/harness")
env = dict(os.environ, VERIF_OUT=out, VERIF_SEED=seed)
results = []
try:
    for pid in ids:
        p = subprocess.run(["/verif/check", pid, "--tier", tier, "--seed", seed], capture_output=True, text=True, env=env, cwd="/verif")
        lines = [l for l in p.stdout.splitlines() if l.startswith(("VIOLATION", "INCONCLUSIVE", "OK "))]
        detail = [l for l in p.stdout.splitlines() if l.startswith("  ") and "observations attributed" not in l]
        print("%s exit=%d %s" % (pid, p.returncode, lines[0] if lines else p.stdout[-300:].replace("\n", " | ")))
        for d in detail[:2]:
            print("     " + d.strip()[:400])
        results.append((pid, p.returncode))
finally:
    git("checkout", "--", ".")
    # files the patch added
    for l in git("status", "--porcelain").stdout.splitlines():
        if l.startswith("??") and l[3:].startswith("src/"):
            os.remove(os.path.join("/repo", l[3:]))
    shutil.rmtree(out, ignore_errors=True)
sys.exit(0 if any(rc == 1 for _, rc in results) else 3)
