// Payload identity: a delivered payload identifies the submitted packet it came from.
//
//  len >= 12 : [u64 uid LE][u32 len LE] then bytes derived from (uid, position)
//  4..=11    : first `len` bytes of the uid (LE) - unique per scenario (uids are small counters
//              tagged with the direction in the top byte of a 32-bit value)
//  0..=3     : "ambiguous class": first `len` bytes of a small counter. Not unique; the scenario
//              generator sends all of them on one designated channel and never as TimeSensitive,
//              and either all Reliable or none Reliable (see DESIGN.md 4.1).

use crate::util::splitmix64;

#[inline]
fn block(uid: u64, blk: u64) -> u64 {
    let mut x = uid.wrapping_mul(0xA24BAED4963EE407) ^ blk.wrapping_mul(0x9FB21C651E98DF25);
    splitmix64(&mut x)
}

/// Writes bytes [off, off+out.len()) of the payload (uid, len) into out.
pub fn fill(uid: u64, len: usize, off: usize, out: &mut [u8]) {
    let mut header = [0u8; 12];
    header[..8].copy_from_slice(&uid.to_le_bytes());
    header[8..].copy_from_slice(&(len as u32).to_le_bytes());
    let mut i = 0;
    while i < out.len() {
        let pos = off + i;
        if len < 12 {
            out[i] = header[pos];
            i += 1;
        } else if pos < 12 {
            out[i] = header[pos];
            i += 1;
        } else {
            let blk = (pos / 8) as u64;
            let w = block(uid, blk).to_le_bytes();
            let mut k = pos % 8;
            while k < 8 && i < out.len() {
                out[i] = w[k];
                k += 1;
                i += 1;
            }
        }
    }
}

pub fn make(uid: u64, len: usize) -> Box<[u8]> {
    let mut v = vec![0u8; len];
    fill(uid, len, 0, &mut v);
    v.into_boxed_slice()
}

/// Does `data` equal bytes [off, off+data.len()) of payload (uid, len)?
pub fn matches(uid: u64, len: usize, off: usize, data: &[u8]) -> bool {
    if off + data.len() > len {
        return false;
    }
    let mut buf = [0u8; 256];
    let mut done = 0;
    while done < data.len() {
        let n = (data.len() - done).min(256);
        fill(uid, len, off + done, &mut buf[..n]);
        if buf[..n] != data[done..done + n] {
            return false;
        }
        done += n;
    }
    true
}

/// For payloads of at least 12 bytes: the uid and length claimed by the header.
pub fn header(data: &[u8]) -> Option<(u64, usize)> {
    if data.len() >= 12 {
        let uid = u64::from_le_bytes(data[..8].try_into().unwrap());
        let len = u32::from_le_bytes(data[8..12].try_into().unwrap()) as usize;
        Some((uid, len))
    } else {
        None
    }
}
