// Hostile-peer driver for a single HalfConnection (C03 crash/hang, C06 receiver memory).
//
// The victim is a real HalfConnection configured like an endpoint would configure it. The peer
// is the harness: it composes CRC-valid frames whose fields are drawn from boundary sets relative
// to the victim's live windows, plus raw bytes and mutations of frames the victim itself emitted,
// and interleaves them with valid API calls at step spacings 0..5000 ms. Everything reaches the
// victim as bytes through Frame::read, exactly like a datagram from the network.

use crate::hcsim::{hc_config, SideCfg, MS};
use crate::util::*;
use crate::wire::*;
use crate::{alloc, guarded, ScnOut};
use uflow::verif as uv;
use uflow::verif::Serialize;

struct VecSink<'a> {
    frames: &'a mut Vec<Vec<u8>>,
}
impl<'a> uv::FrameSink for VecSink<'a> {
    fn send(&mut self, frame_data: &[u8]) {
        alloc::in_harness(|| self.frames.push(frame_data.to_vec()));
    }
}
struct CountSink {
    n: u64,
    bytes: u64,
}
impl uv::PacketSink for CountSink {
    fn send(&mut self, packet_data: Box<[u8]>) {
        self.n += 1;
        self.bytes += packet_data.len() as u64;
        // dropped here: leaves the uflow heap scope
    }
}

pub struct Snapshot {
    pub rx_frame_base: u32,
    pub rx_packet_base: u32,
    pub tx_frame: (u32, u32),
    pub tx_packet: (u32, u32),
    pub window: u32,
    /// id of the oldest frame still in the victim's log
    pub log_base: u32,
}

fn around(rng: &mut Rng, anchors: &[u32], w: u32) -> u32 {
    let a = *rng.pick(anchors);
    match rng.below(14) {
        0 => a,
        1 => a.wrapping_add(1),
        2 => a.wrapping_sub(1),
        3 => a.wrapping_add(w),
        4 => a.wrapping_add(w).wrapping_sub(1),
        5 => a.wrapping_add(w).wrapping_add(1),
        6 => a.wrapping_add(rng.below(w as u64 + 1) as u32),
        7 => a.wrapping_sub(rng.below(w as u64 + 1) as u32),
        8 => a.wrapping_add(2 * w),
        9 => a ^ 0x100000,           // 2^20 alias
        10 => a | 0xFFF00000,        // high bits set
        11 => a.wrapping_add(0x100000),
        12 => rng.u32(),
        _ => a.wrapping_add(rng.below(64) as u32),
    }
}

fn lead(rng: &mut Rng) -> u16 {
    match rng.below(8) {
        0 | 1 | 2 => 0,
        3 => 1,
        4 => 65535,
        5 => rng.below(300) as u16,
        _ => rng.u32() as u16,
    }
}

fn hostile_datagram(rng: &mut Rng, s: &Snapshot, budget: usize, big_claims: bool) -> RDatagram {
    let pid = around(rng, &[s.rx_packet_base], s.window) & PID_MASK;
    let fragment_id_last: u16 = match rng.below(8) {
        0 | 1 | 2 => 0,
        3 => 1,
        4 => rng.range(1, 40) as u16,
        5 => {
            if big_claims {
                65535
            } else {
                rng.range(1, 200) as u16
            }
        }
        _ => {
            if big_claims {
                rng.u32() as u16
            } else {
                rng.range(0, 100) as u16
            }
        }
    };
    let fragment_id: u16 = match rng.below(6) {
        0 => 0,
        1 => fragment_id_last,
        2 => fragment_id_last.wrapping_add(1),
        3 => 65535,
        _ => {
            if fragment_id_last == 0 {
                0
            } else {
                rng.range(0, fragment_id_last as u64) as u16
            }
        }
    };
    let (wl, cl) = match rng.below(4) {
        0 => (0, 0),
        1 => {
            let w = lead(rng);
            (w, w.saturating_add(rng.below(3) as u16))
        }
        _ => (lead(rng), lead(rng)),
    };
    let want_full = fragment_id < fragment_id_last && rng.chance(0.85);
    let max_data = budget.saturating_sub(14).min(MAX_FRAGMENT_SIZE + 8);
    let len = if want_full && max_data >= MAX_FRAGMENT_SIZE {
        MAX_FRAGMENT_SIZE
    } else {
        match rng.below(5) {
            0 => 0,
            1 => max_data.min(MAX_FRAGMENT_SIZE),
            2 => max_data, // may exceed the fragment size by a few bytes
            _ => rng.below(max_data.min(300) as u64 + 1) as usize,
        }
    };
    RDatagram {
        sequence_id: pid,
        channel_id: rng.below(64) as u8,
        window_parent_lead: wl,
        channel_parent_lead: cl,
        fragment_id: if fragment_id_last == 0 { 0 } else { fragment_id },
        fragment_id_last,
        data: (0..len).map(|_| rng.u64() as u8).collect(),
    }
}

fn next_accepted_frame_id(rng: &mut Rng, s: &Snapshot, next_in_order: &mut u32, jumps: &[u32]) -> u32 {
    let jump = *rng.pick(jumps);
    *next_in_order = next_in_order.wrapping_add(jump);
    if next_in_order.wrapping_sub(s.rx_frame_base) >= s.window {
        *next_in_order = s.rx_frame_base.wrapping_add(rng.below(s.window as u64) as u32);
    }
    *next_in_order
}

/// Targeted hostile patterns (receiver-memory sessions).
fn pattern_frame(rng: &mut Rng, s: &Snapshot, next_in_order: &mut u32, profile: u64, rx_alloc: usize, class: &mut &'static str) -> Option<Vec<u8>> {
    match profile {
        1 => {
            // every frame opens a new ack group (ids jump by >= 32) and carries nothing
            *class = "ack-group-flood";
            let jump = if s.window > 40 { &[33u32, 32, 40][..] } else { &[1u32][..] };
            let sequence_id = next_accepted_frame_id(rng, s, next_in_order, jump);
            Some(encode(&RFrame::Data { sequence_id, nonce: rng.chance(0.5), datagrams: Vec::new() }))
        }
        2 => {
            // "lead confusion": a complete packet that names a parent on its own channel which was
            // in fact sent on another channel: never deliverable, yet the packet window moves on
            *class = "lead-confusion";
            let sequence_id = next_accepted_frame_id(rng, s, next_in_order, &[1]);
            let p0 = s.rx_packet_base;
            let c0 = rng.below(64) as u8;
            let c1 = (c0 + 1 + rng.below(62) as u8) % 64;
            let big = rx_alloc.min(MAX_FRAGMENT_SIZE).min(MAX_FRAME_SIZE - 10 - 6 - 14);
            let d0 = RDatagram { sequence_id: p0, channel_id: c0, window_parent_lead: 0, channel_parent_lead: 0, fragment_id: 0, fragment_id_last: 0, data: Vec::new() };
            let d1 = RDatagram { sequence_id: pid_add(p0, 1), channel_id: c1, window_parent_lead: 1, channel_parent_lead: 1, fragment_id: 0, fragment_id_last: 0, data: (0..big).map(|_| rng.u64() as u8).collect() };
            Some(encode(&RFrame::Data { sequence_id, nonce: rng.chance(0.5), datagrams: vec![d0, d1] }))
        }
        3 => {
            // "tail first": the first datagram seen of many multi-fragment packets is their last
            // fragment, a few bytes long; none of the packets is ever completed
            *class = "tail-first";
            let sequence_id = next_accepted_frame_id(rng, s, next_in_order, &[1]);
            let start = rng.below(s.window as u64) as u32;
            let last: u16 = *rng.pick(&[1u16, 1, 1, 2, 5]);
            let mut datagrams = Vec::new();
            let mut size = 10;
            let mut k = 0u32;
            loop {
                let len = rng.below(4) as usize;
                let d = RDatagram { sequence_id: pid_add(s.rx_packet_base, (start + k) % s.window), channel_id: rng.below(64) as u8, window_parent_lead: 0, channel_parent_lead: 0, fragment_id: last, fragment_id_last: last, data: (0..len).map(|_| rng.u64() as u8).collect() };
                size += datagram_encoded_size(&d);
                if size > MAX_FRAME_SIZE || datagrams.len() >= 120 {
                    break;
                }
                datagrams.push(d);
                k += 1;
            }
            Some(encode(&RFrame::Data { sequence_id, nonce: rng.chance(0.5), datagrams }))
        }
        _ => None,
    }
}

pub fn hostile_frame(rng: &mut Rng, s: &Snapshot, next_in_order: &mut u32, captured: &[Vec<u8>], big_claims: bool, class: &mut &'static str) -> Vec<u8> {
    match rng.below(20) {
        0..=8 => {
            // data frame; mostly with a frame id the victim will accept
            let sequence_id = if rng.chance(0.7) {
                let jump = *rng.pick(&[1u32, 1, 1, 2, 31, 32, 33, 100]);
                *next_in_order = next_in_order.wrapping_add(jump);
                if next_in_order.wrapping_sub(s.rx_frame_base) >= s.window {
                    *next_in_order = s.rx_frame_base.wrapping_add(rng.below(s.window as u64) as u32);
                }
                *next_in_order
            } else {
                around(rng, &[s.rx_frame_base], s.window)
            };
            let mut budget = MAX_FRAME_SIZE - 10;
            let n = match rng.below(5) {
                0 => 0,
                1 | 2 => 1,
                _ => rng.range(1, 20) as usize,
            };
            let mut datagrams = Vec::new();
            for _ in 0..n {
                if budget < 6 {
                    break;
                }
                let dg = hostile_datagram(rng, s, budget, big_claims);
                let sz = datagram_encoded_size(&dg);
                if sz > budget {
                    continue;
                }
                budget -= sz;
                datagrams.push(dg);
            }
            *class = "data";
            encode(&RFrame::Data { sequence_id, nonce: rng.chance(0.5), datagrams })
        }
        9..=12 => {
            let n = match rng.below(4) {
                0 => 0,
                1 => 1,
                2 => rng.range(1, 10) as usize,
                _ => rng.range(1, 160) as usize,
            };
            let groups = (0..n)
                .map(|_| RAckGroup {
                    // incl. groups that begin just below the oldest frame the victim still remembers
                    base_id: if rng.chance(0.3) { s.log_base.wrapping_sub(rng.range(0, 33) as u32) } else { around(rng, &[s.tx_frame.0, s.tx_frame.1, s.log_base], s.window) },
                    // incl. bitfields whose low bits are clear (claimed frames start above the base)
                    bitfield: match rng.below(4) {
                        0 => 1u32 << rng.below(32),
                        1 => (!0u32) << rng.below(32),
                        2 => rng.u32() << rng.below(32),
                        _ => *rng.pick(&[0u32, 1, 2, 0x80000000, 0x80000001, !0, 0xFFFFFFFE, 3, 0xFFFF]),
                    } ^ if rng.chance(0.15) { rng.u32() } else { 0 },
                    nonce: rng.chance(0.5),
                })
                .collect();
            *class = "acks";
            encode(&RFrame::Acks {
                frame_window_base_id: around(rng, &[s.tx_frame.0, s.tx_frame.1], s.window),
                packet_window_base_id: around(rng, &[s.tx_packet.0, s.tx_packet.1], s.window),
                groups,
            })
        }
        13..=15 => {
            *class = "sync";
            encode(&RFrame::Sync {
                next_frame_id: if rng.chance(0.7) { Some(around(rng, &[s.rx_frame_base, *next_in_order], s.window)) } else { None },
                next_packet_id: if rng.chance(0.7) { Some(around(rng, &[s.rx_packet_base], s.window)) } else { None },
            })
        }
        16 => {
            // random bytes with a valid crc
            let len = rng.range(1, 1468) as usize;
            let mut b: Vec<u8> = (0..len).map(|_| rng.u64() as u8).collect();
            b[0] = *rng.pick(&[10u8, 11, 12, 10, 12, 0, 1, 2, 3, 4, 5, 77]);
            *class = "random+crc";
            seal(b)
        }
        17 | 18 if !captured.is_empty() => {
            // mutation of a frame the victim itself emitted (reflection / replay / field tweak)
            let mut body = rng.pick(captured).clone();
            body.truncate(body.len() - 4);
            match rng.below(4) {
                0 => {}
                1 => {
                    let k = rng.range(1, 4);
                    for _ in 0..k {
                        let i = rng.below(body.len() as u64) as usize;
                        body[i] = rng.u64() as u8;
                    }
                }
                2 => {
                    let cut = rng.below(body.len() as u64) as usize;
                    body.truncate(cut.max(1));
                }
                _ => {
                    let other = rng.pick(captured);
                    let from = rng.below((other.len() - 4) as u64) as usize;
                    body.extend_from_slice(&other[from..other.len() - 4]);
                    body.truncate(1468);
                }
            }
            *class = "mutated-genuine";
            seal(body)
        }
        _ => {
            // handshake / disconnect frame types never reach a HalfConnection through the endpoints'
            // dispatch, but the reader must cope with them
            let f = crate::codec::gen_frame(rng, true);
            *class = "other-type";
            encode(&f)
        }
    }
}

pub struct HostileOpts {
    pub frames: usize,
    pub rx_focus: bool, // C06: receiver memory focus (victim sends nothing)
}

pub fn run_session(seed: u64, opts: &HostileOpts, out: &mut ScnOut, verbose: bool) {
    let mut rng = Rng::new(seed);
    let window = *rng.pick(&[4u32, 16, 64, 1024, 4096, 4096]);
    let rx_alloc: usize = if opts.rx_focus {
        *rng.pick(&[1usize, 100, 1448, 1449, 10_000, 100_000, 1_000_000, 5_000_000])
    } else {
        *rng.pick(&[3_000usize, 100_000, 1_000_000])
    };
    // an endpoint that accepts MAX_PACKET_SIZE packets (65536 fragments = 94 896 128 bytes): claims
    // of the largest fragment counts are then assembled instead of refused
    let rx_alloc = if Rng::new(seed ^ 0xb16a).chance(if opts.rx_focus { 0.04 } else { 0.08 }) { *Rng::new(seed ^ 0xb16b).pick(&[94_896_128usize, 100_000_000, 300_000_000]) } else { rx_alloc };
    if rx_alloc >= 94_896_128 {
        out.counters.inc("victims_accepting_max_packet_size");
    }
    let big_claims = rx_alloc >= 100_000 || rng.chance(0.3);
    let me = SideCfg { nonce: if rng.chance(0.3) { 0u32.wrapping_sub(rng.below(200) as u32) } else { rng.u32() }, max_send_rate: *rng.pick(&[1472u32, 100_000, 2_000_000, u32::MAX]), max_receive_rate: u32::MAX, rx_alloc, keepalive: Some(5000) };
    // the ids the victim receives start near the 20-bit packet wrap, or (a quarter of the sessions)
    // a few frames below the 32-bit frame wrap, which is also a packet wrap
    let wrap32 = Rng::new(seed ^ 0x3232).chance(0.25);
    if wrap32 {
        out.counters.inc("victims_receiving_frame_ids_across_2_32");
    }
    let peer = SideCfg { nonce: if wrap32 { 0u32.wrapping_sub(Rng::new(seed ^ 0x3233).range(1, 3000) as u32) } else if rng.chance(0.3) { 0xFFFFFu32.wrapping_sub(rng.below(200) as u32) | (rng.u32() << 20) } else { rng.u32() }, max_send_rate: u32::MAX, max_receive_rate: *rng.pick(&[1472u32, 100_000, u32::MAX]), rx_alloc: *rng.pick(&[3000usize, 1_000_000]), keepalive: None };
    uv::time::set_virtual_ns(Some(0));
    uv::rng::set_seed(Some(mix(seed, 77)));
    let mut now_ns: u64 = 0;

    let heap0 = alloc::live_bytes(alloc::TAG_UFLOW);
    let mut hc = guarded(11, || uv::HalfConnection::new(hc_config(&me, &peer, window)));
    let l_fixed = alloc::live_bytes(alloc::TAG_UFLOW) - heap0;
    let alloc_bound = (crate::model::ceil_frag(rx_alloc) as f64 * 1.002) as i64 + 192 * 1024 + (crate::model::ceil_frag(rx_alloc) as i64 / MAX_FRAGMENT_SIZE as i64) / 8 * 2;

    let receive_cadence = rng.below(4); // 0: every frame, 1: sometimes, 2: rarely, 3: never steps/receives
    // receiver-memory sessions: 0 generic mix, 1 ack-group flood, 2 lead confusion, 3 tail first
    let profile = if opts.rx_focus { rng.below(4) } else { 0 };
    out.counters.inc(match profile {
        1 => "sessions_ack_group_flood",
        2 => "sessions_lead_confusion",
        3 => "sessions_tail_first",
        _ => "sessions_generic_mix",
    });
    let send_p = if opts.rx_focus { 0.0 } else { *rng.pick(&[0.0, 0.1, 0.5]) };
    let mut captured: Vec<Vec<u8>> = Vec::new();
    let mut next_in_order = peer.nonce.wrapping_sub(1);
    let mut max_over: i64 = i64::MIN;
    let mut reached_90 = false;
    let mut handled = Counters::default();
    let mut viol: Vec<Violation> = Vec::new();
    let mut last_ops: std::collections::VecDeque<String> = std::collections::VecDeque::new();
    let mut own_send_bytes: i64 = 0;
    let mut stopped = false;

    macro_rules! call {
        ($label:expr, $what:expr, $body:expr) => {{
            let r = std::panic::catch_unwind(std::panic::AssertUnwindSafe(|| guarded($label, || $body)));
            alloc::set_tag(alloc::TAG_HARNESS);
            match r {
                Ok(v) => Some(v),
                Err(e) => {
                    let m = crate::panic_message(&e);
                    let site = crate::panic_site(&m);
                    let ops: Vec<String> = last_ops.iter().cloned().collect();
                    viol.push(Violation::new("C03", "panic", &format!("panic:{}", site), format!("{} panicked: {}; window {} rx_alloc {}; last operations: {}", $what, m, window, rx_alloc, ops.join(" ; "))));
                    stopped = true;
                    None
                }
            }
        }};
    }

    let total_frames = if profile == 1 { opts.frames * 20 } else if profile == 2 { opts.frames * 3 } else { opts.frames };
    for k in 0..total_frames {
        if stopped {
            break;
        }
        // time passes
        let dt = *rng.pick(&[0u64, 0, 1, 1, 15, 15, 100, 5000]) * MS + if rng.chance(0.2) { rng.below(MS) } else { 0 };
        now_ns += dt;
        uv::time::set_virtual_ns(Some(now_ns));

        let snap = Snapshot { rx_frame_base: hc.verif_rx_frame_base_id(), rx_packet_base: hc.verif_rx_packet_base_id(), tx_frame: hc.verif_tx_frame_ids(), tx_packet: hc.verif_tx_packet_ids(), window, log_base: hc.verif_tx_frame_ids().1.wrapping_sub(hc.verif_frame_log_len() as u32) };
        let mut class = "";
        let bytes = match if profile != 0 && rng.chance(0.9) { pattern_frame(&mut rng, &snap, &mut next_in_order, profile, rx_alloc, &mut class) } else { None } {
            Some(b) => b,
            None => hostile_frame(&mut rng, &snap, &mut next_in_order, &captured, big_claims, &mut class),
        };
        let desc = match decode(&bytes) {
            Some(f) => {
                let mut d = format!("{:?}", f);
                d.truncate(300);
                d
            }
            None => format!("{} bytes rejected by reference", bytes.len()),
        };
        if last_ops.len() >= 6 {
            last_ops.pop_front();
        }
        last_ops.push_back(format!("t={}ms frame {}", now_ns / MS, desc));
        if verbose {
            eprintln!("[{}] {}", k, last_ops.back().unwrap());
        }
        out.counters.inc("hostile_frames");
        let parsed = match call!(9, "Frame::read", uv::frame::Frame::read(&bytes)) {
            Some(p) => p,
            None => break,
        };
        if let Some(frame) = parsed {
            match frame {
                uv::frame::Frame::DataFrame(df) => {
                    handled.inc("handled_data");
                    handled.add("handled_datagrams", df.datagrams.len() as i128);
                    call!(4, "handle_data_frame", hc.handle_data_frame(df));
                }
                uv::frame::Frame::AckFrame(af) => {
                    handled.inc("handled_acks");
                    call!(5, "handle_ack_frame", hc.handle_ack_frame(af));
                }
                uv::frame::Frame::SyncFrame(sf) => {
                    handled.inc("handled_sync");
                    call!(6, "handle_sync_frame", hc.handle_sync_frame(sf));
                }
                _ => handled.inc("handled_other_type_ignored"),
            }
        } else {
            handled.inc("rejected_by_reader");
        }
        if stopped {
            break;
        }

        // valid API calls in between
        let do_step = match receive_cadence {
            0 => true,
            1 => rng.chance(0.3),
            2 => rng.chance(0.02),
            _ => false,
        };
        if rng.chance(send_p) && !stopped {
            let max_len = peer.rx_alloc.min(5000);
            let len = rng.below(max_len as u64 + 1) as usize;
            let mode = *rng.pick(&[uflow::SendMode::Reliable, uflow::SendMode::Persistent, uflow::SendMode::Unreliable, uflow::SendMode::TimeSensitive]);
            own_send_bytes += len as i64;
            let data = vec![0u8; len].into_boxed_slice();
            let chan = rng.below(64) as u8;
            last_ops.push_back(format!("send({} bytes, chan {}, {:?})", len, chan, mode));
            call!(3, "send()", hc.send(data, chan, mode));
        }
        if do_step && !stopped {
            let mut frames = Vec::new();
            {
                let mut sink = VecSink { frames: &mut frames };
                last_ops.push_back("flush()".into());
                call!(2, "flush()", hc.flush(&mut sink));
            }
            if !stopped {
                last_ops.push_back("step()".into());
                call!(1, "step()", hc.step());
            }
            if !stopped {
                let mut sink = CountSink { n: 0, bytes: 0 };
                last_ops.push_back("receive()".into());
                call!(7, "receive()", hc.receive(&mut sink));
                handled.add("victim_delivered_packets", sink.n as i128);
            }
            if !stopped && rng.chance(0.3) {
                let mut sink = VecSink { frames: &mut frames };
                call!(2, "flush()", hc.flush(&mut sink));
            }
            for f in frames {
                if captured.len() < 32 {
                    captured.push(f);
                } else if rng.chance(0.1) {
                    let i = rng.below(32) as usize;
                    captured[i] = f;
                }
            }
            while last_ops.len() > 8 {
                last_ops.pop_front();
            }
        }
        if stopped {
            break;
        }
        // C06: receiver memory
        if crate::checkalloc_active() {
            let live = alloc::live_bytes(alloc::TAG_UFLOW) - heap0;
            let own_tx = hc.send_buffer_size() as i64 + hc.verif_frame_log_len() as i64 * 96 + 4096;
            let over = live - l_fixed - alloc_bound - if opts.rx_focus { 0 } else { own_send_bytes.max(own_tx) * 2 };
            if over > max_over {
                max_over = over;
            }
            if hc.verif_rx_alloc() * 10 >= rx_alloc.min(usize::MAX / 16) * 9 {
                reached_90 = true;
            }
            if over > 0 && opts.rx_focus && viol.iter().all(|v| v.prop != "C06") {
                let ackq = hc.verif_ack_queue_len();
                let class = if hc.verif_rx_alloc() as i64 > crate::model::ceil_frag(rx_alloc) as i64 { "packet-data-over-limit" } else if ackq as i64 * 12 > over / 2 { "ack-queue-growth" } else { "other-receive-state" };
                viol.push(Violation::new("C06", "receiver-memory", &format!("C06:receiver-memory:{}", class), format!("heap held by the connection after {} hostile frames is {} bytes above construction (= {}), allowed max_receive_alloc rounded up ({}) + 192 kB; packet data accounted by the assembly window: {} bytes; pending ack groups: {} (12 bytes each); receive cadence class {}", k + 1, live - l_fixed, l_fixed, crate::model::ceil_frag(rx_alloc), hc.verif_rx_alloc(), ackq, receive_cadence)));
            }
        }
    }
    // teardown
    let r = std::panic::catch_unwind(std::panic::AssertUnwindSafe(|| guarded(11, || drop(hc))));
    alloc::set_tag(alloc::TAG_HARNESS);
    if r.is_err() {
        viol.push(Violation::new("C03", "panic", "panic:drop(HalfConnection)", "dropping the HalfConnection panicked".into()));
    } else if crate::checkalloc_active() && !stopped {
        let live = alloc::live_bytes(alloc::TAG_UFLOW) - heap0;
        out.counters.inc("teardowns_checked");
        if live != 0 {
            viol.push(Violation::new("C19", "leak-on-teardown", "C19:leak-on-teardown", format!("{} bytes still live after dropping a HalfConnection that had been fed hostile frames", live)));
        }
        let (n, v) = alloc::take_violations();
        if n > 0 {
            viol.push(Violation::new("C19", "layout-mismatch", "C19:layout-mismatch:hostile", format!("{} allocator-contract violations under hostile input; first: freed with size {} align {}, allocated with size {} align {}", n, v[0].free_size, v[0].free_align, v[0].alloc_size, v[0].alloc_align)));
        }
    }
    uv::time::set_virtual_ns(None);
    uv::rng::set_seed(None);

    out.evals += 1;
    let reached = handled.get("handled_data") + handled.get("handled_acks") + handled.get("handled_sync");
    let nontrivial = if opts.rx_focus { reached_90 || handled.get("handled_datagrams") >= 50 } else { reached >= 20 };
    if nontrivial {
        out.nontrivial += 1;
        let mut h = mix(seed, reached as u64);
        for (k, v) in &handled.items {
            h = mix(h, hash_str(k) ^ *v as u64);
        }
        out.sigs.push(h);
    }
    if reached_90 {
        out.counters.inc("sessions_reaching_90pct_of_receive_alloc");
    }
    if max_over > i64::MIN {
        out.counters.max("max_receiver_heap_over_bound", max_over as i128);
    }
    for (k, v) in handled.items {
        out.counters.add(k, v);
    }
    if out.samples.len() < 1 && seed % 53 == 0 {
        out.samples.push(J::obj().with("window", J::Int(window as i128)).with("rx_alloc", J::u(rx_alloc)).with("receive_cadence_class", J::Int(receive_cadence as i128)).with("last_operations", J::Arr(last_ops.iter().map(|s| J::s(s)).collect())));
    }
    out.violations.extend(viol);
}

pub fn run_batch(scn_seed: u64, params: &crate::Params, out: &mut ScnOut, rx_focus: bool) {
    let n = params.u64("batch", 20);
    let frames = params.u64("frames", if rx_focus { 3000 } else { 400 }) as usize;
    let verbose = params.flag("verbose");
    for k in 0..n {
        run_session(mix(scn_seed, k), &HostileOpts { frames, rx_focus }, out, verbose);
        if out.violations.len() > 20 {
            break;
        }
    }
}

// =============================================================================================
// C13 under a peer that makes the victim owe many acknowledgements ("ack-storm")

/// The harness is the peer: it acknowledges the victim's data frames honestly after a simulated
/// round trip (so the victim has an RTT estimate, a send rate and burst credit), and every few
/// seconds hands it, between two flushes, hundreds to thousands of CRC-valid empty data frames
/// whose ids lie 33 apart, each of which opens an acknowledgement group of its own. Oracle: the
/// C13 byte bound over the victim's whole transmission trace.
pub fn run_ack_storm(seed: u64, out: &mut ScnOut, verbose: bool) {
    use crate::hcsim::{check_rate_trace, TxEvent, SEC};
    let mut rng = Rng::new(seed);
    let window = *rng.pick(&[1024u32, 4096]);
    let b = *rng.pick(&[20_000u32, 100_000, 500_000]);
    let me = SideCfg { nonce: rng.u32(), max_send_rate: b, max_receive_rate: u32::MAX, rx_alloc: 1_000_000, keepalive: Some(5000) };
    let peer = SideCfg { nonce: rng.u32(), max_send_rate: u32::MAX, max_receive_rate: u32::MAX, rx_alloc: 1_000_000, keepalive: None };
    let rtt_ns = *rng.pick(&[20u64, 60, 150, 400]) * MS;
    let dt = *rng.pick(&[5u64, 15, 33]) * MS;
    let load = *rng.pick(&[0.05f64, 0.2, 0.5]);
    let pkt_len = *rng.pick(&[100usize, 400, 1000]);
    let storm_every = rng.range(1, 4) * SEC;
    let storm_size = *rng.pick(&[170usize, 400, 1000, 3000]);
    let app_flush_p = *rng.pick(&[0.0, 0.3]);
    let horizon = rng.range(8, 25) * SEC;
    uv::time::set_virtual_ns(Some(0));
    uv::rng::set_seed(Some(mix(seed, 79)));
    let mut hc = guarded(11, || uv::HalfConnection::new(hc_config(&me, &peer, window)));
    let mut now: u64 = 0;
    let mut trace: Vec<TxEvent> = Vec::new();
    let mut due: std::collections::VecDeque<(u64, u32, bool, Option<u32>)> = std::collections::VecDeque::new();
    let mut next_hostile_id = peer.nonce;
    let mut next_storm = storm_every;
    let (mut cur_rtt, mut prev_rtt) = (0.0f64, 0.0f64);
    let mut last_step = 0u64;
    let mut steps = 0u64;
    let mut viol: Vec<Violation> = Vec::new();
    let mut c = Counters::default();
    let mut stopped = false;
    let mut send_credit = 0.0f64;
    macro_rules! call {
        ($label:expr, $what:expr, $body:expr) => {{
            let r = std::panic::catch_unwind(std::panic::AssertUnwindSafe(|| guarded($label, || $body)));
            alloc::set_tag(alloc::TAG_HARNESS);
            match r {
                Ok(v) => Some(v),
                Err(e) => {
                    let m = crate::panic_message(&e);
                    viol.push(Violation::new("C03", "panic", &format!("panic:{}", crate::panic_site(&m)), format!("{} panicked: {} (ack-storm session)", $what, m)));
                    stopped = true;
                    None
                }
            }
        }};
    }
    while now <= horizon && !stopped {
        uv::time::set_virtual_ns(Some(now));
        let step_dt = if steps == 0 { 0 } else { now - last_step };
        // 1. flush
        let mut frames: Vec<Vec<u8>> = Vec::new();
        let owed = hc.verif_ack_queue_len();
        {
            let mut sink = VecSink { frames: &mut frames };
            call!(2, "flush()", hc.flush(&mut sink));
        }
        if owed > 161 && cur_rtt > 0.0 {
            c.inc("flushes_owing_more_than_one_ack_frame");
        }
        c.max("max_ack_groups_owed_at_flush", owed as i128);
        let record = |frames: &Vec<Vec<u8>>, app: bool, rtt_s: f64, trace: &mut Vec<TxEvent>, due: &mut std::collections::VecDeque<(u64, u32, bool, Option<u32>)>| {
            for f in frames {
                trace.push(TxEvent { t_ns: now, len: f.len() as u32, rtt_s, step_dt_ns: step_dt, after_app_flush: app });
                if let Some(RFrame::Data { sequence_id, nonce, datagrams }) = decode(f) {
                    let last_pid = datagrams.iter().map(|d| d.sequence_id).last();
                    due.push_back((now + rtt_ns, sequence_id, nonce, last_pid));
                }
            }
        };
        record(&frames, false, cur_rtt.max(prev_rtt), &mut trace, &mut due);
        if stopped {
            break;
        }
        // 2. frames from the peer: honest acknowledgements that are due, then possibly a storm
        let mut groups: Vec<RAckGroup> = Vec::new();
        let mut fbase = None;
        let mut pbase = None;
        while due.front().map_or(false, |d| d.0 <= now) {
            let (_, seq, nonce, last_pid) = due.pop_front().unwrap();
            groups.push(RAckGroup { base_id: seq, bitfield: 1, nonce });
            fbase = Some(seq.wrapping_add(1));
            if let Some(p) = last_pid {
                pbase = Some(pid_add(p, 1));
            }
            if groups.len() >= 100 {
                break;
            }
        }
        if let Some(fb) = fbase {
            let pb = pbase.unwrap_or(hc.verif_tx_packet_ids().0);
            let bytes = encode(&RFrame::Acks { frame_window_base_id: fb, packet_window_base_id: pb, groups });
            if let Some(Some(uv::frame::Frame::AckFrame(af))) = call!(9, "Frame::read", uv::frame::Frame::read(&bytes)) {
                call!(5, "handle_ack_frame", hc.handle_ack_frame(af));
                c.inc("honest_acks_handed_over");
            }
        }
        if now >= next_storm && !stopped {
            next_storm = now + storm_every;
            c.inc("storms");
            for _ in 0..storm_size {
                let bytes = encode(&RFrame::Data { sequence_id: next_hostile_id, nonce: rng.chance(0.5), datagrams: Vec::new() });
                next_hostile_id = next_hostile_id.wrapping_add(33);
                if let Some(Some(uv::frame::Frame::DataFrame(df))) = call!(9, "Frame::read", uv::frame::Frame::read(&bytes)) {
                    call!(4, "handle_data_frame", hc.handle_data_frame(df));
                    c.inc("storm_frames");
                }
                if stopped {
                    break;
                }
            }
        }
        if stopped {
            break;
        }
        // 3. step, receive
        call!(1, "step()", hc.step());
        if stopped {
            break;
        }
        last_step = now;
        steps += 1;
        prev_rtt = cur_rtt;
        cur_rtt = hc.rtt_s().unwrap_or(0.0);
        {
            let mut sink = CountSink { n: 0, bytes: 0 };
            call!(7, "receive()", hc.receive(&mut sink));
        }
        // 4. the victim's own modest traffic (it is not backlogged)
        send_credit += b as f64 * load * dt as f64 / 1e9;
        while send_credit >= pkt_len as f64 && !stopped && hc.send_buffer_size() < 200_000 {
            send_credit -= pkt_len as f64;
            let data = vec![7u8; pkt_len].into_boxed_slice();
            call!(3, "send()", hc.send(data, 0, uflow::SendMode::Reliable));
            c.inc("victim_packets");
        }
        if rng.chance(app_flush_p) && !stopped {
            let mut frames: Vec<Vec<u8>> = Vec::new();
            {
                let mut sink = VecSink { frames: &mut frames };
                call!(2, "flush()", hc.flush(&mut sink));
            }
            record(&frames, true, cur_rtt.max(prev_rtt), &mut trace, &mut due);
        }
        now += dt;
    }
    if verbose {
        eprintln!("ack-storm: B={} rtt={}ms dt={}ms storm {} every {}ms: {} tx events, rtt now {:?}", b, rtt_ns / MS, dt / MS, storm_size, storm_every / MS, trace.len(), hc.rtt_s());
    }
    let ack_bytes: u64 = trace.iter().map(|e| e.len as u64).sum();
    c.add("victim_bytes_on_wire", ack_bytes as i128);
    if !stopped {
        check_rate_trace(0, b as f64, &trace, &mut c, &mut viol);
    }
    let _ = std::panic::catch_unwind(std::panic::AssertUnwindSafe(|| guarded(11, || drop(hc))));
    alloc::set_tag(alloc::TAG_HARNESS);
    let _ = alloc::take_violations();
    uv::time::set_virtual_ns(None);
    uv::rng::set_seed(None);
    out.evals += 1;
    if c.get("flushes_owing_more_than_one_ack_frame") >= 1 && c.get("honest_acks_handed_over") >= 5 {
        out.nontrivial += 1;
        out.sigs.push(mix(seed, c.get("rate_events") as u64 ^ (c.get("max_ack_groups_owed_at_flush") as u64) << 32));
    }
    for (k, v) in c.items {
        if k.starts_with("max_") {
            out.counters.max(&k, v);
        } else {
            out.counters.add(&k, v);
        }
    }
    out.violations.extend(viol);
}

pub fn run_ack_storm_batch(scn_seed: u64, params: &crate::Params, out: &mut ScnOut) {
    let n = params.u64("batch", 4);
    for k in 0..n {
        run_ack_storm(mix(scn_seed, k), out, params.flag("verbose"));
        if out.violations.len() > 20 {
            break;
        }
    }
}
