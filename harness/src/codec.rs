// C16: frame codec round trip, malformed-input rejection, CRC detection of <= 4 bit flips.
//
// Everything here runs the real `Frame::read` / `Frame::write` / `crc::compute`; the oracle is the
// independent reference in wire.rs.

use crate::util::*;
use crate::wire::*;
use std::collections::HashSet;
use uflow::verif::frame as uf;
use uflow::verif::Serialize;

pub struct BatchResult {
    pub counters: Counters,
    pub violations: Vec<Violation>,
    pub sigs: HashSet<u64>,
    pub samples: Vec<J>,
}

fn gen_u32(rng: &mut Rng) -> u32 {
    match rng.below(8) {
        0 => 0,
        1 => u32::MAX,
        2 => 1 << rng.below(32),
        3 => (1u32 << rng.below(32)).wrapping_sub(1),
        4 => 0x000FFFFF_u32.wrapping_add(rng.below(3) as u32).wrapping_sub(1),
        _ => rng.u32(),
    }
}

fn gen_u16(rng: &mut Rng) -> u16 {
    match rng.below(8) {
        0 => 0,
        1 => u16::MAX,
        2 => *rng.pick(&[1u16, 63, 64, 126, 127, 128, 129, 254, 255, 256, 257]),
        3 => rng.below(300) as u16,
        _ => rng.u32() as u16,
    }
}

fn gen_datagram(rng: &mut Rng, max_data: usize) -> RDatagram {
    let fragment_id_last = if rng.chance(0.5) { 0 } else { gen_u16(rng) };
    let fragment_id = if fragment_id_last == 0 { 0 } else { gen_u16(rng) };
    let len_choices = [0usize, 1, 2, 62, 63, 64, 65, 127, 128, 254, 255, 256, 257, 1447, 1448];
    let mut len = match rng.below(4) {
        0 => *rng.pick(&len_choices),
        1 => rng.below(70) as usize,
        2 => rng.below(300) as usize,
        _ => rng.below(max_data as u64 + 1) as usize,
    };
    if len > max_data {
        len = max_data;
    }
    let lead_choices = [0u16, 1, 126, 127, 128, 129, 254, 255, 256, 257, 4095, 4096, 65535];
    let window_parent_lead = if rng.chance(0.6) { *rng.pick(&lead_choices) } else { rng.u32() as u16 };
    let channel_parent_lead = if rng.chance(0.6) { *rng.pick(&lead_choices) } else { rng.u32() as u16 };
    let mut data = vec![0u8; len];
    for b in data.iter_mut() {
        *b = rng.u64() as u8;
    }
    RDatagram {
        sequence_id: if rng.chance(0.3) { *rng.pick(&[0u32, 1, 0xFFFFF, 0xFFFFE, 0x80000, 0xFFFF, 0x10000]) } else { rng.u32() & PID_MASK },
        channel_id: if rng.chance(0.3) { *rng.pick(&[0u8, 15, 16, 31, 32, 47, 48, 63]) } else { rng.below(64) as u8 },
        window_parent_lead,
        channel_parent_lead,
        fragment_id,
        fragment_id_last,
        data,
    }
}

/// Generates a representable frame. `fit`: keep the encoding within one MTU.
pub fn gen_frame(rng: &mut Rng, fit: bool) -> RFrame {
    match rng.below(14) {
        0 => RFrame::Syn {
            version: rng.u32() as u8,
            nonce: gen_u32(rng),
            max_receive_rate: gen_u32(rng),
            max_packet_size: gen_u32(rng),
            max_receive_alloc: gen_u32(rng),
        },
        1 => RFrame::SynAck {
            nonce_ack: gen_u32(rng),
            nonce: gen_u32(rng),
            max_receive_rate: gen_u32(rng),
            max_packet_size: gen_u32(rng),
            max_receive_alloc: gen_u32(rng),
        },
        2 => RFrame::Ack { nonce_ack: gen_u32(rng) },
        3 => RFrame::Error { nonce_ack: gen_u32(rng), error: rng.below(3) as u8 },
        4 => RFrame::Disconnect,
        5 => RFrame::DisconnectAck,
        6 => RFrame::Sync {
            next_frame_id: if rng.chance(0.5) { Some(gen_u32(rng)) } else { None },
            next_packet_id: if rng.chance(0.5) { Some(gen_u32(rng)) } else { None },
        },
        7 | 8 | 9 => {
            // ack frame
            let max_groups = if fit { (MAX_FRAME_SIZE - 15) / 9 } else { 400 };
            let n = match rng.below(5) {
                0 => 0,
                1 => 1,
                2 => max_groups,
                3 => max_groups.saturating_sub(1),
                _ => rng.below(max_groups as u64 + 1) as usize,
            };
            RFrame::Acks {
                frame_window_base_id: gen_u32(rng),
                packet_window_base_id: gen_u32(rng),
                groups: (0..n).map(|_| RAckGroup { base_id: gen_u32(rng), bitfield: gen_u32(rng), nonce: rng.chance(0.5) }).collect(),
            }
        }
        _ => {
            // data frame
            let budget_total = if fit { MAX_FRAME_SIZE - 10 } else { 4000 };
            let mut budget = budget_total;
            let want = match rng.below(6) {
                0 => 0,
                1 => 1,
                2 => 127,
                3 => 126,
                _ => rng.below(128) as usize,
            };
            let exact_fill = fit && rng.chance(0.2);
            let mut datagrams = Vec::new();
            for i in 0..want {
                if budget < 6 {
                    break;
                }
                let remaining_slots = want - i;
                // leave room for at least a micro header per remaining datagram when many are wanted
                let reserve = (remaining_slots - 1) * 6;
                if budget <= reserve + 6 {
                    let mut dg = gen_datagram(rng, 0);
                    dg.fragment_id = 0;
                    dg.fragment_id_last = 0;
                    dg.window_parent_lead &= 0x7F;
                    dg.channel_parent_lead &= 0xFF;
                    budget -= datagram_encoded_size(&dg);
                    datagrams.push(dg);
                    continue;
                }
                let max_data = (budget - reserve).saturating_sub(14).min(65535);
                let dg = gen_datagram(rng, max_data);
                let sz = datagram_encoded_size(&dg);
                if sz > budget - reserve {
                    continue;
                }
                budget -= sz;
                datagrams.push(dg);
            }
            if exact_fill && datagrams.len() < 127 && budget >= 14 {
                // one large datagram that makes the frame exactly 1472 bytes
                let len = budget - 14;
                let mut dg = gen_datagram(rng, len);
                dg.fragment_id_last = dg.fragment_id_last.max(1);
                dg.data = (0..len).map(|_| rng.u64() as u8).collect();
                datagrams.push(dg);
            }
            RFrame::Data { sequence_id: gen_u32(rng), nonce: rng.chance(0.5), datagrams }
        }
    }
}

fn frame_sig(f: &RFrame, extra: u64) -> u64 {
    // structural signature: type, size bucket, datagram encodings used, counts bucket
    let mut h = hash_str(f.type_name()) ^ extra.wrapping_mul(0x9E3779B97F4A7C15);
    match f {
        RFrame::Data { datagrams, .. } => {
            let mut encs = 0u64;
            for d in datagrams {
                encs |= 1 << (canonical_enc(d) as u64);
            }
            h = mix(h, encs);
            h = mix(h, (datagrams.len() as u64).min(127) / 8);
            let sz: usize = datagrams.iter().map(datagram_encoded_size).sum();
            h = mix(h, (sz / 128) as u64);
        }
        RFrame::Acks { groups, .. } => {
            h = mix(h, (groups.len() / 8) as u64);
        }
        RFrame::Sync { next_frame_id, next_packet_id } => {
            h = mix(h, next_frame_id.is_some() as u64 | (next_packet_id.is_some() as u64) << 1);
        }
        _ => {}
    }
    h
}

fn read_guarded(b: &[u8]) -> Result<Option<uf::Frame>, String> {
    let r = std::panic::catch_unwind(|| crate::alloc::in_uflow(|| uf::Frame::read(b)));
    r.map_err(|e| crate::panic_message(&e))
}

fn short_hex(b: &[u8]) -> String {
    if b.len() <= 96 {
        hex(b)
    } else {
        format!("{}..({} bytes)..{}", hex(&b[..48]), b.len(), hex(&b[b.len() - 16..]))
    }
}

/// Round trip + reference comparison for generated frames.
pub fn roundtrip_batch(seed: u64, n: usize) -> BatchResult {
    let mut rng = Rng::new(seed);
    let mut res = BatchResult { counters: Counters::default(), violations: Vec::new(), sigs: HashSet::new(), samples: Vec::new() };
    for i in 0..n {
        let fit = rng.chance(0.9);
        let f = gen_frame(&mut rng, fit);
        debug_assert!(representable(&f));
        let uf_frame = to_uflow(&f);
        let written = match std::panic::catch_unwind(|| crate::alloc::in_uflow(|| uf_frame.write())) {
            Ok(w) => w,
            Err(e) => {
                res.violations.push(Violation::new("C16", "write-panic", &format!("write-panic:{}", f.type_name()), format!("write panicked: {} frame={:?}", crate::panic_message(&e), f.type_name())));
                continue;
            }
        };
        res.counters.inc("roundtrip_frames");
        res.counters.inc(match f {
            RFrame::Data { .. } => "rt_data",
            RFrame::Acks { .. } => "rt_acks",
            RFrame::Sync { .. } => "rt_sync",
            _ => "rt_handshake_disconnect",
        });
        if written.len() == MAX_FRAME_SIZE {
            res.counters.inc("rt_exactly_1472");
        }
        let mut nontrivial = written.len() >= 1400;
        if let RFrame::Data { datagrams, .. } = &f {
            let mut encs = 0u32;
            for d in datagrams {
                encs |= 1 << (canonical_enc(d) as u32);
                res.counters.inc(match canonical_enc(d) {
                    DgEnc::Micro => "dg_micro",
                    DgEnc::Small => "dg_small",
                    _ => "dg_large",
                });
            }
            if encs.count_ones() >= 2 {
                nontrivial = true;
            }
        }
        match read_guarded(&written) {
            Err(msg) => res.violations.push(Violation::new("C16", "read-panic", "read-panic:own-output", format!("read panicked on its own output: {} bytes={}", msg, short_hex(&written)))),
            Ok(None) => res.violations.push(Violation::new("C16", "roundtrip", &format!("roundtrip-rejected:{}", f.type_name()), format!("read(write(f)) = None for {} frame; bytes={}", f.type_name(), short_hex(&written)))),
            Ok(Some(back)) => {
                if from_uflow(&back) != f {
                    res.violations.push(Violation::new("C16", "roundtrip", &format!("roundtrip-differs:{}", f.type_name()), format!("read(write(f)) != f for {} frame; bytes={}", f.type_name(), short_hex(&written))));
                }
            }
        }
        // reference view of the writer's output (observation + accept-side check)
        match classify(&written) {
            Class::MustAccept(g) => {
                if g != f {
                    res.counters.inc("ref_decodes_writer_output_differently");
                }
                if written[..] == encode(&f)[..] {
                    res.counters.inc("writer_bytes_equal_reference");
                }
            }
            Class::DontCare(_) => res.counters.inc("writer_output_noncanonical_per_reference"),
            Class::MustReject(_) => res.counters.inc("writer_output_rejected_by_reference"),
        }
        if nontrivial {
            res.counters.inc("rt_nontrivial");
            res.sigs.insert(frame_sig(&f, 1));
        }
        if i < 2 {
            res.samples.push(J::obj().with("kind", J::s("roundtrip")).with("type", J::s(f.type_name())).with("bytes", J::s(&short_hex(&written))));
        }
    }
    res
}

/// Arbitrary / mutated bytes against the reference classification.
pub fn decode_batch(seed: u64, n: usize) -> BatchResult {
    let mut rng = Rng::new(seed);
    let mut res = BatchResult { counters: Counters::default(), violations: Vec::new(), sigs: HashSet::new(), samples: Vec::new() };
    // every batch begins with the shortest inputs there are: all-zero and all-one strings of 0..=16
    // bytes, the CRC of nothing, and every sealed one- and two-byte body (type byte x one field byte)
    let mut tiny: Vec<(Vec<u8>, &'static str)> = Vec::new();
    for len in 0..=16usize {
        tiny.push((vec![0u8; len], "tiny-zeros"));
        tiny.push((vec![0xFFu8; len], "tiny-ones"));
    }
    tiny.push((seal(Vec::new()), "tiny-sealed"));
    for t in 0..=255u8 {
        tiny.push((seal(vec![t]), "tiny-sealed"));
    }
    for t in [0u8, 1, 2, 3, 4, 5, 10, 11, 12] {
        for _ in 0..8 {
            let l = rng.range(1, 8) as usize;
            let mut b = vec![t];
            b.extend((0..l).map(|_| rng.u64() as u8));
            tiny.push((seal(b), "tiny-sealed"));
        }
    }
    let n_tiny = tiny.len();
    let mut tiny = tiny.into_iter();
    for i in 0..n + n_tiny {
        let (bytes, kind): (Vec<u8>, &'static str) = if let Some(t) = tiny.next() { res.counters.inc("decode_tiny_inputs"); t } else { match rng.below(10) {
            0 => {
                // random bytes, random length, correct crc
                let len = rng.range(1, 1468) as usize;
                let mut b: Vec<u8> = (0..len).map(|_| rng.u64() as u8).collect();
                if rng.chance(0.7) {
                    b[0] = *rng.pick(&[0u8, 1, 2, 3, 4, 5, 10, 11, 12, 6, 9, 13, 255]);
                }
                (seal(b), "random+crc")
            }
            1 => {
                let len = rng.range(0, 1472) as usize;
                ((0..len).map(|_| rng.u64() as u8).collect(), "random")
            }
            _ => {
                // mutation of a genuine encoding
                let f = gen_frame(&mut rng, true);
                let mut body = encode_body(&f);
                let kind = match rng.below(12) {
                    0 => {
                        let cut = rng.range(1, body.len().min(20) as u64) as usize;
                        body.truncate(body.len() - cut.min(body.len() - 1));
                        "truncate"
                    }
                    1 => {
                        let extra = rng.range(1, 20) as usize;
                        for _ in 0..extra {
                            body.push(rng.u64() as u8);
                        }
                        "extend"
                    }
                    2 => {
                        body[0] = rng.u64() as u8;
                        "type-byte"
                    }
                    3 => {
                        // count field tweak
                        match body[0] {
                            10 => {
                                let c = body[5] & 0x7F;
                                let nc = if rng.chance(0.5) { c.wrapping_add(1) } else { c.wrapping_sub(1) } & 0x7F;
                                body[5] = (body[5] & 0x80) | nc;
                            }
                            12 => {
                                let c = u16::from_be_bytes([body[9], body[10]]);
                                let nc = if rng.chance(0.5) { c.wrapping_add(1) } else { c.wrapping_sub(1) };
                                body[9..11].copy_from_slice(&nc.to_be_bytes());
                            }
                            _ => {
                                let i = rng.below(body.len() as u64) as usize;
                                body[i] ^= 1 << rng.below(8);
                            }
                        }
                        "count±1"
                    }
                    4 => {
                        // datagram length field tweak (first datagram)
                        if body[0] == 10 && body.len() > 8 {
                            let i = 6 + rng.below(3) as usize;
                            if i < body.len() {
                                body[i] = body[i].wrapping_add(rng.range(1, 3) as u8);
                            }
                        } else if body.len() > 1 {
                            let i = 1 + rng.below((body.len() - 1) as u64) as usize;
                            body[i] = rng.u64() as u8;
                        }
                        "length-field"
                    }
                    5 => {
                        // error enum / sync mode / ack nonce byte tweak
                        match body[0] {
                            3 => body[5] = rng.range(3, 255) as u8,
                            11 => body[1] = rng.u64() as u8,
                            12 if body.len() >= 20 => body[19] = rng.range(2, 255) as u8,
                            0 => {
                                let i = rng.range(18, (body.len() - 1) as u64) as usize;
                                body[i] = rng.range(1, 255) as u8;
                            }
                            _ => {}
                        }
                        "enum/padding"
                    }
                    6 => {
                        // splice two bodies
                        let g = gen_frame(&mut rng, true);
                        let other = encode_body(&g);
                        let cut = rng.below(body.len() as u64 + 1) as usize;
                        body.truncate(cut.max(1));
                        let from = rng.below(other.len() as u64) as usize;
                        body.extend_from_slice(&other[from..]);
                        body.truncate(1468);
                        "splice"
                    }
                    7 => {
                        // non-canonical datagram headers
                        if let RFrame::Data { sequence_id, nonce, datagrams } = &f {
                            let mut b = vec![10u8];
                            b.extend_from_slice(&sequence_id.to_be_bytes());
                            b.push(((*nonce as u8) << 7) | datagrams.len() as u8);
                            for dg in datagrams {
                                let enc = match canonical_enc(dg) {
                                    DgEnc::Micro => *rng.pick(&[DgEnc::Micro, DgEnc::Small, DgEnc::Large]),
                                    DgEnc::Small => *rng.pick(&[DgEnc::Small, DgEnc::Large]),
                                    _ => DgEnc::Large,
                                };
                                encode_datagram(dg, enc, &mut b);
                            }
                            b.truncate(1468);
                            body = b;
                        }
                        "noncanonical-header"
                    }
                    8 => {
                        let k = rng.range(1, 8) as usize;
                        for _ in 0..k {
                            let i = rng.below(body.len() as u64) as usize;
                            body[i] = rng.u64() as u8;
                        }
                        "byte-noise"
                    }
                    9 => {
                        body.clear();
                        body.push(*rng.pick(&[0u8, 1, 2, 3, 4, 5, 10, 11, 12]));
                        let extra = rng.below(12) as usize;
                        for _ in 0..extra {
                            body.push(rng.u64() as u8);
                        }
                        "tiny"
                    }
                    _ => "genuine",
                };
                let mut bytes = seal(body);
                if kind == "genuine" && rng.chance(0.3) {
                    // bad crc
                    let i = bytes.len() - 1 - rng.below(4) as usize;
                    bytes[i] ^= 1 << rng.below(8);
                    (bytes, "bad-crc")
                } else {
                    (bytes, kind)
                }
            }
        } };
        if bytes.len() > MAX_FRAME_SIZE {
            // the endpoints never hand more than one MTU to the reader
            continue;
        }
        res.counters.inc("decode_inputs");
        let class = classify(&bytes);
        let crc_ok = bytes.len() >= 5 && crc_ref(&bytes[..bytes.len() - 4]) == u32::from_be_bytes([bytes[bytes.len() - 4], bytes[bytes.len() - 3], bytes[bytes.len() - 2], bytes[bytes.len() - 1]]);
        let got = read_guarded(&bytes);
        let cname = match class {
            Class::MustAccept(_) => "must_accept",
            Class::DontCare(_) => "dont_care",
            Class::MustReject(_) => "must_reject",
        };
        res.counters.inc(match cname {
            "must_accept" => "class_must_accept",
            "dont_care" => "class_dont_care",
            _ => "class_must_reject",
        });
        match (&class, &got) {
            (_, Err(msg)) => res.violations.push(Violation::new("C16", "read-panic", &format!("read-panic:{}", kind), format!("Frame::read panicked ({}) on {} input {}", msg, kind, short_hex(&bytes)))),
            (Class::MustAccept(f), Ok(Some(g))) => {
                if &from_uflow(g) != f {
                    res.violations.push(Violation::new("C16", "decode-differs", &format!("decode-differs:{}", f.type_name()), format!("reader returned a different {} frame than the reference for {}", f.type_name(), short_hex(&bytes))));
                }
            }
            (Class::MustAccept(f), Ok(None)) => res.violations.push(Violation::new("C16", "reject-wellformed", &format!("reject-wellformed:{}", f.type_name()), format!("reader rejected a well-formed {} frame: {}", f.type_name(), short_hex(&bytes)))),
            (Class::MustReject(why), Ok(Some(g))) => res.violations.push(Violation::new("C16", "accept-malformed", &format!("accept-malformed:{}", why), format!("reader accepted malformed input ({}), returned {} frame; kind={} bytes={}", why, from_uflow(g).type_name(), kind, short_hex(&bytes)))),
            (Class::MustReject(_), Ok(None)) => {}
            (Class::DontCare(f), Ok(Some(g))) => {
                res.counters.inc("dont_care_accepted");
                if &from_uflow(g) != f {
                    res.counters.inc("dont_care_accepted_differently");
                }
            }
            (Class::DontCare(_), Ok(None)) => res.counters.inc("dont_care_rejected"),
        }
        if crc_ok {
            res.counters.inc("decode_nontrivial_valid_crc");
            res.sigs.insert(mix(hash_str(kind), mix(hash_str(cname), (bytes[0] as u64) | ((bytes.len() / 256) as u64) << 8)));
        }
        if i < 2 {
            res.samples.push(J::obj().with("kind", J::s(kind)).with("class", J::s(cname)).with("bytes", J::s(&short_hex(&bytes))));
        }
    }
    res
}

/// 1..4 random bit flips of genuine frames must be rejected.
pub fn flips_batch(seed: u64, n: usize) -> BatchResult {
    let mut rng = Rng::new(seed);
    let mut res = BatchResult { counters: Counters::default(), violations: Vec::new(), sigs: HashSet::new(), samples: Vec::new() };
    let mut made = 0;
    while made < n {
        let f = gen_frame(&mut rng, true);
        let good = encode(&f);
        if good.len() > MAX_FRAME_SIZE {
            continue;
        }
        // several corruptions per frame
        for _ in 0..8 {
            if made >= n {
                break;
            }
            made += 1;
            let k = rng.range(1, 4) as usize;
            let nbits = good.len() * 8;
            let mut pos: Vec<usize> = Vec::new();
            while pos.len() < k {
                let p = match rng.below(4) {
                    0 => nbits - 1 - rng.below(64.min(nbits as u64)) as usize, // near / in the crc field
                    1 => rng.below(64.min(nbits as u64)) as usize,            // header
                    _ => rng.below(nbits as u64) as usize,
                };
                if !pos.contains(&p) {
                    pos.push(p);
                }
            }
            let mut bad = good.clone();
            for &p in &pos {
                bad[p / 8] ^= 1 << (p % 8);
            }
            res.counters.inc("flip_inputs");
            res.counters.inc(match k {
                1 => "flips_1",
                2 => "flips_2",
                3 => "flips_3",
                _ => "flips_4",
            });
            match read_guarded(&bad) {
                Err(msg) => res.violations.push(Violation::new("C16", "read-panic", "read-panic:bitflips", format!("Frame::read panicked ({}) on {}", msg, short_hex(&bad)))),
                Ok(Some(_)) => res.violations.push(Violation::new("C16", "flip-accepted", &format!("flip-accepted:{}bits", k), format!("{}-bit corruption accepted: positions {:?} of {} frame ({} bytes): {}", k, pos, f.type_name(), good.len(), short_hex(&bad)))),
                Ok(None) => {}
            }
            res.sigs.insert(mix(hash_str(f.type_name()), (k as u64) | ((good.len() / 64) as u64) << 4 | (pos.iter().any(|&p| p >= nbits - 32) as u64) << 16));
            if made <= 2 {
                res.samples.push(J::obj().with("kind", J::s("bitflips")).with("type", J::s(f.type_name())).with("len", J::u(good.len())).with("flipped_bits", J::Arr(pos.iter().map(|&p| J::u(p)).collect())));
            }
        }
    }
    res
}

/// CRC closure over measured syndromes of the real crc::compute (see DESIGN.md, C16).
pub fn crc_closure(seed: u64, affinity_samples: usize) -> BatchResult {
    let mut rng = Rng::new(seed);
    let mut res = BatchResult { counters: Counters::default(), violations: Vec::new(), sigs: HashSet::new(), samples: Vec::new() };
    let crc = |d: &[u8]| -> u32 { uflow::verif::crc_compute(d) };

    const NBITS: usize = MAX_FRAME_SIZE * 8; // 11776, counted from the END of the frame
    const DATA_BYTES: usize = MAX_FRAME_SIZE - 4;

    // (0) the implementation agrees with the bitwise polynomial division on random inputs
    for _ in 0..2000 {
        let len = rng.below(1469) as usize;
        let m: Vec<u8> = (0..len).map(|_| rng.u64() as u8).collect();
        res.counters.inc("crc_vs_bitwise_reference");
        if crc(&m) != crc_ref(&m) {
            res.violations.push(Violation::new("C16", "crc-reference", "crc-differs-from-polynomial", format!("crc::compute differs from bitwise division by 0x132c00699 on {}", short_hex(&m))));
            return res;
        }
    }

    // (1) measure the syndrome of every bit position with the real implementation.
    // Position k (from the end of the frame): k < 32 is a bit of the stored CRC (unit vector),
    // k >= 32 is data bit (k - 32) from the end of the data.
    let mut syn = vec![0u32; NBITS];
    for k in 0..32 {
        // stored big-endian: last byte holds bits 0..7 of the value
        syn[k] = 1u32 << k;
    }
    let zero = vec![0u8; DATA_BYTES];
    let base = crc(&zero);
    for k in 32..NBITS {
        let d = k - 32; // bit distance from end of data
        let byte_from_end = d / 8;
        let bit = d % 8;
        let mut m = zero.clone();
        m[DATA_BYTES - 1 - byte_from_end] ^= 1 << bit;
        syn[k] = crc(&m) ^ base;
    }
    res.counters.add("syndromes_measured", NBITS as i128);

    // (2) affinity: crc(m ^ e) ^ crc(m) == xor of measured syndromes, for random lengths, messages,
    // error sets; every table index value exercised at sampled byte offsets.
    let mut idx_seen = [false; 256];
    for s in 0..affinity_samples {
        let len = if s % 4 == 0 { DATA_BYTES } else { rng.range(1, DATA_BYTES as u64) as usize };
        let m: Vec<u8> = (0..len).map(|_| rng.u64() as u8).collect();
        let k = rng.range(1, 6) as usize;
        let mut e = m.clone();
        let mut expect = 0u32;
        let mut used: Vec<usize> = Vec::new();
        for _ in 0..k {
            let d = rng.below((len * 8) as u64) as usize;
            if used.contains(&d) {
                continue;
            }
            used.push(d);
            e[len - 1 - d / 8] ^= 1 << (d % 8);
            expect ^= syn[32 + d];
        }
        idx_seen[m[0] as usize] = true;
        res.counters.inc("affinity_samples");
        if crc(&e) ^ crc(&m) != expect {
            res.violations.push(Violation::new("C16", "crc-affinity", "crc-not-affine", format!("crc(m^e)^crc(m) != xor of syndromes: len={} bits_from_end={:?}", len, used)));
            return res;
        }
    }
    // single-byte value sweep at several offsets: all 256 values of the table index
    for off in [0usize, 1, 7, 100, 733, DATA_BYTES - 1] {
        for v in 0..256usize {
            let mut m = zero.clone();
            m[off] = v as u8;
            let mut expect = 0u32;
            for bit in 0..8 {
                if v & (1 << bit) != 0 {
                    expect ^= syn[32 + (DATA_BYTES - 1 - off) * 8 + bit];
                }
            }
            res.counters.inc("affinity_byte_sweep");
            if crc(&m) ^ base != expect {
                res.violations.push(Violation::new("C16", "crc-affinity", "crc-not-affine", format!("byte value {} at offset {} breaks affinity", v, off)));
                return res;
            }
        }
    }
    let _ = idx_seen;

    // (3) closure: no 1, 2, 3 or 4 syndromes xor to zero
    // size 1
    for (k, &s) in syn.iter().enumerate() {
        if s == 0 {
            res.violations.push(Violation::new("C16", "crc-closure", "crc-undetected:1bit", format!("single bit flip {} bits from the end of a frame is undetected", k)));
            return res;
        }
    }
    // size 2
    let mut sorted: Vec<(u32, u32)> = syn.iter().enumerate().map(|(k, &s)| (s, k as u32)).collect();
    sorted.sort_unstable();
    for w in sorted.windows(2) {
        if w[0].0 == w[1].0 {
            res.violations.push(Violation::new("C16", "crc-closure", "crc-undetected:2bit", format!("bit flips {} and {} bits from the end cancel", w[0].1, w[1].1)));
            return res;
        }
    }
    // size 3 and 4
    let singles: HashSet<u32> = syn.iter().copied().collect();
    let npairs = NBITS * (NBITS - 1) / 2;
    let mut pairs: Vec<u32> = Vec::with_capacity(npairs);
    for i in 0..NBITS {
        let si = syn[i];
        for j in (i + 1)..NBITS {
            let x = si ^ syn[j];
            pairs.push(x);
        }
    }
    res.counters.add("pair_xors", pairs.len() as i128);
    // size 3: a pair xor equal to a third single
    for (n, &x) in pairs.iter().enumerate() {
        if singles.contains(&x) {
            // recover indices for the message
            let (i, j) = pair_index(n, NBITS);
            if let Some(k) = syn.iter().position(|&s| s == x) {
                if k != i && k != j {
                    res.violations.push(Violation::new("C16", "crc-closure", "crc-undetected:3bit", format!("bit flips {}, {}, {} bits from the end cancel", i, j, k)));
                    return res;
                }
            }
        }
    }
    // size 4: two different pairs with equal xor (pairs sharing an index are excluded by size 2)
    pairs.sort_unstable();
    for w in pairs.windows(2) {
        if w[0] == w[1] {
            res.violations.push(Violation::new("C16", "crc-closure", "crc-undetected:4bit", format!("two disjoint pairs of bit flips have the same syndrome {:08x}", w[0])));
            return res;
        }
    }
    res.counters.add("closure_patterns_covered_log10", {
        let n = NBITS as f64;
        (n + n * (n - 1.0) / 2.0 + n * (n - 1.0) * (n - 2.0) / 6.0 + n * (n - 1.0) * (n - 2.0) * (n - 3.0) / 24.0).log10().floor() as i128
    });
    res.counters.inc("closure_completed");
    res.sigs.insert(hash_str("crc-closure-1"));
    res.sigs.insert(hash_str("crc-closure-2"));
    res.sigs.insert(hash_str("crc-closure-3"));
    res.sigs.insert(hash_str("crc-closure-4"));
    res.samples.push(J::obj().with("kind", J::s("crc-closure")).with("syndrome_bit32", J::s(&format!("{:08x}", syn[32]))).with("syndrome_last", J::s(&format!("{:08x}", syn[NBITS - 1]))));
    res
}

fn pair_index(n: usize, total: usize) -> (usize, usize) {
    // inverse of the enumeration order used above
    let mut i = 0;
    let mut rem = n;
    loop {
        let row = total - 1 - i;
        if rem < row {
            return (i, i + 1 + rem);
        }
        rem -= row;
        i += 1;
    }
}
