//! Synthetic sender against a real receiving HalfConnection ("frag-rx", C04).
//!
//! The harness plays the sending peer on the wire: it cuts its own packets into genuine fragments
//! with the reference codec and hands them to a real `HalfConnection` in ANY order — permuted,
//! repeated, interleaved with the fragments of other packets, replayed after completion and after
//! the window has passed — each in a frame of its own with the next frame id, so no frame is ever
//! refused as a repetition. Between them it places forged fragments for packets under assembly
//! whose header disagrees with the genuine first fragment seen (fewer fragments, more fragments,
//! another channel, other parent leads) but which are well-formed in every other respect.
//!
//! Oracle (boundary only: frames in, `PacketSink::send` out): every delivered payload is
//! byte-identical to the packet whose index it carries, no packet is delivered twice, deliveries
//! of one channel come in id order, and once every genuine fragment has been handed over at least
//! once every packet of the all-ordered chain has been delivered exactly once.

use crate::hcsim::{hc_config, SideCfg, MS};
use crate::util::*;
use crate::wire::*;
use crate::{alloc, guarded, ScnOut};
use uflow::verif as uv;
use uflow::verif::Serialize;

struct NullSink;
impl uv::FrameSink for NullSink {
    fn send(&mut self, _frame_data: &[u8]) {}
}

struct PktSink<'a> {
    pkts: &'a mut Vec<Box<[u8]>>,
}
impl<'a> uv::PacketSink for PktSink<'a> {
    fn send(&mut self, packet_data: Box<[u8]>) {
        self.pkts.push(packet_data);
    }
}

struct Pkt {
    id: u32,
    chan: u8,
    ordered: bool,
    wl: u16,
    cl: u16,
    data: Vec<u8>,
    nfrag: usize,
    fed: Vec<u32>, // times each genuine fragment was handed over
    first_fed: bool,
    delivered: u32,
    forged_slots: Vec<usize>,
}

fn payload(seed: u64, index: u64, len: usize) -> Vec<u8> {
    let mut r = Rng::new(mix(seed, index ^ 0xfeed));
    let mut v: Vec<u8> = Vec::with_capacity(len);
    v.extend_from_slice(&index.to_le_bytes());
    while v.len() < len {
        v.extend_from_slice(&r.u64().to_le_bytes());
    }
    v.truncate(len);
    v
}

fn fragment(p: &Pkt, f: usize) -> RDatagram {
    let a = f * MAX_FRAGMENT_SIZE;
    let b = ((f + 1) * MAX_FRAGMENT_SIZE).min(p.data.len());
    RDatagram { sequence_id: p.id, channel_id: p.chan, window_parent_lead: p.wl, channel_parent_lead: p.cl, fragment_id: f as u16, fragment_id_last: (p.nfrag - 1) as u16, data: p.data[a..b].to_vec() }
}

pub fn run_session(seed: u64, n_packets: usize, out: &mut ScnOut, verbose: bool) {
    let mut rng = Rng::new(seed);
    let window = *rng.pick(&[4u32, 16, 64, 1024, 4096]);
    let me = SideCfg { nonce: rng.u32(), max_send_rate: 1_000_000, max_receive_rate: u32::MAX, rx_alloc: 64 << 20, keepalive: Some(5000) };
    let peer_nonce = match rng.below(3) {
        0 => 0xFFFFFu32.wrapping_sub(rng.below(40) as u32) | (rng.u32() << 20),
        1 => 0u32.wrapping_sub(rng.below(40) as u32),
        _ => rng.u32(),
    };
    let peer = SideCfg { nonce: peer_nonce, max_send_rate: u32::MAX, max_receive_rate: u32::MAX, rx_alloc: 1 << 20, keepalive: None };
    uv::time::set_virtual_ns(Some(0));
    uv::rng::set_seed(Some(mix(seed, 78)));
    let mut now_ns: u64 = 0;
    let heap0 = alloc::live_bytes(alloc::TAG_UFLOW);
    let mut hc = guarded(11, || uv::HalfConnection::new(hc_config(&me, &peer, window)));

    // the packets the synthetic sender will send
    let nchan = *rng.pick(&[1usize, 2, 5, 64]);
    let chans: Vec<u8> = (0..nchan).map(|_| rng.below(64) as u8).collect();
    let unordered_p = *rng.pick(&[0.0, 0.0, 0.2, 0.6]);
    let shape = rng.below(4);
    let mut pkts: Vec<Pkt> = Vec::new();
    let mut last_ordered: Option<u32> = None;
    let mut last_ordered_chan: [Option<u32>; 64] = [None; 64];
    let base_pid = peer.nonce & PID_MASK;
    for i in 0..n_packets {
        let id = pid_add(base_pid, i as u32);
        let chan = *rng.pick(&chans);
        let nfrag = match shape {
            0 => rng.range(2, 4) as usize,
            1 => rng.range(1, 9) as usize,
            2 => *rng.pick(&[2usize, 3, 3, 5, 12, 40]),
            _ => rng.range(2, 6) as usize,
        };
        let len = match rng.below(5) {
            0 => nfrag * MAX_FRAGMENT_SIZE,
            1 => (nfrag - 1) * MAX_FRAGMENT_SIZE + 1,
            2 => ((nfrag - 1) * MAX_FRAGMENT_SIZE + rng.range(1, 16) as usize).min(nfrag * MAX_FRAGMENT_SIZE),
            _ => (nfrag - 1) * MAX_FRAGMENT_SIZE + rng.range(1, MAX_FRAGMENT_SIZE as u64) as usize,
        }
        .max(8);
        let ordered = !rng.chance(unordered_p);
        // parent leads as a uflow sender computes them (distance to the last ordered packet overall
        // and on this channel), limited to parents the receiver can still have in its window
        let lead = |parent: Option<u32>| -> u16 {
            match parent {
                Some(p) => {
                    let d = id.wrapping_sub(p) & PID_MASK;
                    if d < window.min(65535) {
                        d as u16
                    } else {
                        0
                    }
                }
                None => 0,
            }
        };
        let wl = lead(last_ordered);
        let cl = if wl == 0 { 0 } else { lead(last_ordered_chan[chan as usize]) };
        if ordered {
            last_ordered = Some(id);
            last_ordered_chan[chan as usize] = Some(id);
        }
        let data = payload(seed, i as u64, len);
        let nfrag = (len + MAX_FRAGMENT_SIZE - 1) / MAX_FRAGMENT_SIZE;
        pkts.push(Pkt { id, chan, ordered, wl, cl, data, nfrag, fed: vec![0; nfrag], first_fed: false, delivered: 0, forged_slots: Vec::new() });
    }

    let mut viol: Vec<Violation> = Vec::new();
    let mut stopped = false;
    let mut next_frame = peer.nonce;
    let mut admitted = 0usize; // packets [0, admitted) have their fragments in the pool
    let mut pool: Vec<(usize, usize)> = Vec::new(); // (packet index, fragment) still to hand over
    let mut replay: Vec<(usize, usize)> = Vec::new();
    let max_in_flight = *rng.pick(&[1usize, 2, 4, 16, 64]);
    let forge_p = *rng.pick(&[0.1, 0.3, 0.6]);
    let dup_p = *rng.pick(&[0.0, 0.1, 0.4]);
    let step_p = *rng.pick(&[1.0, 0.5, 0.1]);
    let order_policy = rng.below(3); // 0 random, 1 reverse within packet first, 2 mostly in order
    let mut last_delivered_on_chan: [Option<usize>; 64] = [None; 64];
    let mut c = Counters::default();
    let mut last_ops: std::collections::VecDeque<String> = std::collections::VecDeque::new();

    macro_rules! call {
        ($label:expr, $what:expr, $body:expr) => {{
            let r = std::panic::catch_unwind(std::panic::AssertUnwindSafe(|| guarded($label, || $body)));
            alloc::set_tag(alloc::TAG_HARNESS);
            match r {
                Ok(v) => Some(v),
                Err(e) => {
                    let m = crate::panic_message(&e);
                    let site = crate::panic_site(&m);
                    let ops: Vec<String> = last_ops.iter().cloned().collect();
                    viol.push(Violation::new("C03", "panic", &format!("panic:{}", site), format!("{} panicked: {}; window {}; last operations: {}", $what, m, window, ops.join(" ; "))));
                    stopped = true;
                    None
                }
            }
        }};
    }

    let mut guard = 0u64;
    let max_iter = (n_packets as u64 * 60 + 2000) * 8;
    loop {
        guard += 1;
        if stopped || guard > max_iter {
            break;
        }
        let all_delivered = pkts.iter().all(|p| p.delivered > 0 || !p.ordered);
        if admitted == pkts.len() && pool.is_empty() && all_delivered {
            break;
        }
        now_ns += *rng.pick(&[0u64, 1, 1, 15, 40]) * MS;
        uv::time::set_virtual_ns(Some(now_ns));

        // admit packets the receiver's window can hold
        let rx_base = hc.verif_rx_packet_base_id();
        while admitted < pkts.len() {
            let lead = pkts[admitted].id.wrapping_sub(rx_base) & PID_MASK;
            let in_flight = pkts[..admitted].iter().filter(|p| p.fed.iter().any(|&n| n == 0)).count();
            if lead >= window || in_flight >= max_in_flight {
                break;
            }
            let nf = pkts[admitted].nfrag;
            let mut frs: Vec<usize> = (0..nf).collect();
            match order_policy {
                0 => rng.shuffle(&mut frs),
                1 => frs.reverse(),
                _ => {}
            }
            for f in frs {
                pool.push((admitted, f));
            }
            admitted += 1;
        }

        // what goes on the wire now
        let mut dg: Option<RDatagram> = None;
        let mut what = String::new();
        let under_assembly: Vec<usize> = (0..admitted).filter(|&i| pkts[i].first_fed && pkts[i].delivered == 0 && pkts[i].nfrag >= 2 && pkts[i].fed.iter().any(|&n| n == 0)).collect();
        if !under_assembly.is_empty() && rng.chance(forge_p) {
            let pi = *rng.pick(&under_assembly);
            let p = &pkts[pi];
            let l = (p.nfrag - 1) as u16;
            let missing: Vec<usize> = (0..p.nfrag).filter(|&f| p.fed[f] == 0).collect();
            let slot = if rng.chance(0.8) { *rng.pick(&missing) } else { rng.below(p.nfrag as u64) as usize } as u16;
            let mut bad = fragment(p, slot as usize);
            let kind = rng.below(6);
            match kind {
                0 => bad.fragment_id_last = slot, // claims to be the last fragment of a shorter packet
                1 => bad.fragment_id_last = slot + rng.below((l - slot) as u64 + 1) as u16,
                2 => bad.fragment_id_last = l.saturating_add(1 + rng.below(3) as u16),
                3 => bad.channel_id = (bad.channel_id + 1 + rng.below(62) as u8) % 64,
                4 => {
                    bad.window_parent_lead = bad.window_parent_lead.wrapping_add(1 + rng.below(5) as u16);
                    if bad.channel_parent_lead != 0 && bad.channel_parent_lead < bad.window_parent_lead {
                        bad.channel_parent_lead = bad.window_parent_lead;
                    }
                }
                _ => {
                    bad.channel_parent_lead = bad.channel_parent_lead.wrapping_add(1 + rng.below(5) as u16).max(1);
                    if bad.window_parent_lead == 0 || bad.channel_parent_lead < bad.window_parent_lead {
                        bad.window_parent_lead = 1;
                    }
                }
            }
            let disagree = bad.fragment_id_last != l || bad.channel_id != p.chan || bad.window_parent_lead != p.wl || bad.channel_parent_lead != p.cl;
            if disagree {
                let len = if bad.fragment_id < bad.fragment_id_last || rng.chance(0.5) { MAX_FRAGMENT_SIZE } else { rng.range(0, MAX_FRAGMENT_SIZE as u64) as usize };
                bad.data = (0..len).map(|_| rng.u64() as u8).collect();
                what = format!("FORGED p{} f{}/{} c{} wl{} cl{} {}B (genuine /{} c{} wl{} cl{})", bad.sequence_id, bad.fragment_id, bad.fragment_id_last, bad.channel_id, bad.window_parent_lead, bad.channel_parent_lead, len, l, p.chan, p.wl, p.cl);
                c.inc("forged_fragments");
                c.inc(match kind {
                    0 | 1 => "forged_fewer_fragments",
                    2 => "forged_more_fragments",
                    3 => "forged_other_channel",
                    _ => "forged_other_leads",
                });
                if p.fed[slot as usize] == 0 {
                    c.inc("forged_into_slot_not_yet_received");
                }
                pkts[pi].forged_slots.push(slot as usize);
                dg = Some(bad);
            }
        }
        if dg.is_none() {
            if !replay.is_empty() && (pool.is_empty() || rng.chance(dup_p)) {
                // a repetition: possibly of a packet long delivered or already behind the window
                let (pi, f) = *rng.pick(&replay);
                dg = Some(fragment(&pkts[pi], f));
                what = format!("repeat p{} f{}", pkts[pi].id, f);
                c.inc("repeated_fragments");
                if pkts[pi].delivered > 0 {
                    c.inc("repeated_after_delivery");
                }
            } else if !pool.is_empty() {
                let k = match order_policy {
                    2 => if rng.chance(0.8) { 0 } else { rng.below(pool.len() as u64) as usize },
                    _ => rng.below(pool.len() as u64) as usize,
                };
                let (pi, f) = pool.remove(k);
                // admitted inside the window; if the window has moved past it since (an unordered
                // packet skipped half-assembled), the fragment is handed over all the same, late
                let lead = pkts[pi].id.wrapping_sub(hc.verif_rx_packet_base_id()) & PID_MASK;
                if lead >= window {
                    c.inc("genuine_fragments_behind_window");
                }
                {
                    dg = Some(fragment(&pkts[pi], f));
                    what = format!("p{} f{}/{}", pkts[pi].id, f, pkts[pi].nfrag - 1);
                    pkts[pi].fed[f] += 1;
                    pkts[pi].first_fed = true;
                    replay.push((pi, f));
                    c.inc("genuine_fragments");
                    if pkts[pi].fed.iter().filter(|&&n| n > 0).count() > 1 && under_assembly.len() >= 2 {
                        c.inc("fragments_interleaved_with_other_packets");
                    }
                }
            }
        }
        if let Some(d) = dg {
            let bytes = encode(&RFrame::Data { sequence_id: next_frame, nonce: rng.chance(0.5), datagrams: vec![d] });
            next_frame = next_frame.wrapping_add(1);
            if last_ops.len() >= 10 {
                last_ops.pop_front();
            }
            last_ops.push_back(what.clone());
            if verbose {
                eprintln!("[{} ms] {}", now_ns / MS, what);
            }
            let parsed = match call!(9, "Frame::read", uv::frame::Frame::read(&bytes)) {
                Some(p) => p,
                None => break,
            };
            match parsed {
                Some(uv::frame::Frame::DataFrame(df)) => {
                    call!(4, "handle_data_frame", hc.handle_data_frame(df));
                }
                _ => {
                    viol.push(Violation::new("C16", "reference-frame-rejected", "C16:reference-frame-rejected", format!("the reader rejected a well-formed data frame: {}", what)));
                }
            }
        }
        if stopped {
            break;
        }
        if rng.chance(step_p) || pool.is_empty() {
            {
                let mut sink = NullSink;
                call!(2, "flush()", hc.flush(&mut sink));
            }
            if stopped {
                break;
            }
            call!(1, "step()", hc.step());
            if stopped {
                break;
            }
            let mut got: Vec<Box<[u8]>> = Vec::new();
            {
                let mut sink = PktSink { pkts: &mut got };
                call!(7, "receive()", hc.receive(&mut sink));
            }
            for g in got.iter() {
                c.inc("deliveries");
                if g.len() < 8 {
                    viol.push(Violation::new("C04", "delivered-unknown-payload", "C04:rx:delivered-unknown-payload", format!("delivered {} bytes, no packet that short was sent; last operations: {}", g.len(), last_ops.iter().cloned().collect::<Vec<_>>().join(" ; "))));
                    continue;
                }
                let idx = u64::from_le_bytes([g[0], g[1], g[2], g[3], g[4], g[5], g[6], g[7]]) as usize;
                if idx >= pkts.len() {
                    viol.push(Violation::new("C04", "delivered-unknown-payload", "C04:rx:delivered-unknown-payload", format!("delivered {} bytes whose index {} names no packet sent", g.len(), idx)));
                    continue;
                }
                let p = &mut pkts[idx];
                if g[..] != p.data[..] {
                    let first_diff = g.iter().zip(p.data.iter()).position(|(a, b)| a != b).unwrap_or(g.len().min(p.data.len()));
                    viol.push(Violation::new("C04", "delivered-bytes-differ", "C04:rx:delivered-bytes-differ", format!("packet p{} ({} bytes, {} fragments) delivered as {} bytes, first difference at offset {} (fragment {}); forged fragments had been sent for its slots {:?}; genuine fragments handed over per slot {:?}; last operations: {}", p.id, p.data.len(), p.nfrag, g.len(), first_diff, first_diff / MAX_FRAGMENT_SIZE, p.forged_slots, p.fed, last_ops.iter().cloned().collect::<Vec<_>>().join(" ; "))));
                }
                p.delivered += 1;
                if p.delivered > 1 {
                    viol.push(Violation::new("C04", "delivered-twice", "C04:rx:delivered-twice", format!("packet p{} delivered {} times", p.id, p.delivered)));
                }
                if p.fed.iter().any(|&n| n == 0) {
                    viol.push(Violation::new("C04", "delivered-before-complete", "C04:rx:delivered-before-complete", format!("packet p{} delivered although genuine fragments {:?} were never handed over (forged slots {:?})", p.id, p.fed.iter().enumerate().filter(|(_, &n)| n == 0).map(|(i, _)| i).collect::<Vec<_>>(), p.forged_slots)));
                }
                if !p.forged_slots.is_empty() {
                    c.inc("delivered_packets_that_had_forged_fragments");
                }
                if p.nfrag >= 2 {
                    c.inc("delivered_multifrag");
                }
                let ch = p.chan as usize;
                if let Some(prev) = last_delivered_on_chan[ch] {
                    if prev > idx {
                        viol.push(Violation::new("C01", "channel-order", "C01:rx:channel-order", format!("channel {}: packet index {} delivered after index {}", ch, idx, prev)));
                    }
                }
                last_delivered_on_chan[ch] = Some(idx);
            }
        }
    }
    if !stopped && guard <= max_iter {
        c.inc("sessions_completed");
        for p in pkts.iter() {
            if p.ordered && p.delivered != 1 {
                viol.push(Violation::new("C04", "ordered-packet-not-delivered", "C04:rx:ordered-packet-not-delivered", format!("every genuine fragment was handed over inside the window, yet ordered packet p{} ({} fragments) was delivered {} times; forged slots {:?}", p.id, p.nfrag, p.delivered, p.forged_slots)));
                break;
            }
        }
    } else if !stopped {
        // ran out of iterations: ordered packets stuck (a forged fragment blocking a slot shows here)
        let stuck: Vec<u32> = pkts.iter().filter(|p| p.ordered && p.delivered == 0 && p.fed.iter().all(|&n| n > 0)).map(|p| p.id).take(5).collect();
        if !stuck.is_empty() {
            viol.push(Violation::new("C04", "ordered-packet-not-delivered", "C04:rx:ordered-packet-not-delivered", format!("ordered packets {:?} had every genuine fragment handed over inside the window but were not delivered after {} iterations", stuck, guard)));
        } else {
            let und: Vec<(u32, bool, u16, u16, u8, Vec<u32>)> = pkts.iter().filter(|p| p.delivered == 0).take(4).map(|p| (p.id, p.ordered, p.wl, p.cl, p.chan, p.fed.clone())).collect();
            out.inconclusive.push(format!("frag-rx session {} did not finish in {} iterations: window {} admitted {}/{} pool {} rx_base {} max_in_flight {} undelivered {:?}", seed, guard, window, admitted, pkts.len(), pool.len(), base_pid, max_in_flight, und));
        }
    }
    let r = std::panic::catch_unwind(std::panic::AssertUnwindSafe(|| guarded(11, || drop(hc))));
    alloc::set_tag(alloc::TAG_HARNESS);
    if r.is_err() {
        viol.push(Violation::new("C03", "panic", "panic:drop(HalfConnection)", "dropping the HalfConnection panicked".into()));
    } else if crate::checkalloc_active() && !stopped {
        let live = alloc::live_bytes(alloc::TAG_UFLOW) - heap0;
        out.counters.inc("teardowns_checked");
        if live != 0 {
            viol.push(Violation::new("C19", "leak-on-teardown", "C19:leak-on-teardown", format!("{} bytes still live after dropping a receiving HalfConnection", live)));
        }
        let (n, v) = alloc::take_violations();
        if n > 0 {
            viol.push(Violation::new("C19", "layout-mismatch", "C19:layout-mismatch:frag-rx", format!("{} allocator-contract violations; first: freed with size {} align {}, allocated with size {} align {}", n, v[0].free_size, v[0].free_align, v[0].alloc_size, v[0].alloc_align)));
        }
    }
    uv::time::set_virtual_ns(None);
    uv::rng::set_seed(None);

    out.evals += 1;
    let nontrivial = c.get("forged_into_slot_not_yet_received") >= 1 && c.get("delivered_packets_that_had_forged_fragments") >= 1;
    if nontrivial {
        out.nontrivial += 1;
        let mut h = mix(seed, c.get("deliveries") as u64);
        for (k, v) in &c.items {
            h = mix(h, hash_str(k) ^ *v as u64);
        }
        out.sigs.push(h);
    }
    for (k, v) in c.items {
        out.counters.add(k, v);
    }
    out.violations.extend(viol);
}

pub fn run_batch(scn_seed: u64, params: &crate::Params, out: &mut ScnOut) {
    let n = params.u64("batch", 10);
    let packets = params.u64("packets", 60) as usize;
    let verbose = params.flag("verbose");
    if let Some(one) = params.get("one") {
        run_session(one.parse().unwrap(), packets, out, verbose);
        return;
    }
    for k in 0..n {
        run_session(mix(scn_seed, k), packets, out, verbose);
        if out.violations.len() > 20 {
            break;
        }
    }
}

// =============================================================================================
// C01 across a whole lap of the 20-bit packet id space ("pid-lap")

/// The harness sends just under 2^20 tiny unordered packets (about a hundred per frame, so only
/// ~10^4 frames) to a real receiving HalfConnection, which delivers them all; then copies of the
/// very first data frames arrive again — late duplicates whose packet ids have meanwhile come
/// round and sit inside the receiver's packet window once more. Only the frame id tells them
/// apart. Oracle: no payload index is delivered twice, and per channel the indices increase.
pub fn run_pid_lap(seed: u64, out: &mut ScnOut) {
    let mut rng = Rng::new(seed);
    let window = 4096u32;
    let me = SideCfg { nonce: rng.u32(), max_send_rate: 1_000_000, max_receive_rate: u32::MAX, rx_alloc: 8 << 20, keepalive: Some(5000) };
    let peer_nonce = match rng.below(3) {
        0 => 0xFFFFFu32.wrapping_sub(rng.below(5000) as u32) | (rng.u32() << 20),
        1 => 0u32.wrapping_sub(rng.below(20000) as u32),
        _ => rng.u32(),
    };
    let peer = SideCfg { nonce: peer_nonce, max_send_rate: u32::MAX, max_receive_rate: u32::MAX, rx_alloc: 1 << 20, keepalive: None };
    uv::time::set_virtual_ns(Some(0));
    uv::rng::set_seed(Some(mix(seed, 81)));
    let mut hc = guarded(11, || uv::HalfConnection::new(hc_config(&me, &peer, window)));
    // how far short of a full lap the stream stops: the replayed ids then lie this far ahead of
    // the receiver's packet window base (inside the window)
    let short = rng.range(1, window as u64 - 200) as usize;
    let total = (1usize << 20) - short;
    let per_frame = rng.range(40, 110) as usize;
    let chans: Vec<u8> = (0..3).map(|_| rng.below(64) as u8).collect();
    let base_pid = peer.nonce & PID_MASK;
    let mut next_frame = peer.nonce;
    let mut early: Vec<Vec<u8>> = Vec::new();
    let mut seen = vec![0u64; (1 << 20) / 64 + 1];
    let mut last_on_chan: [i64; 64] = [-1; 64];
    let mut viol: Vec<Violation> = Vec::new();
    let mut c = Counters::default();
    let mut now_ns = 0u64;
    let mut stopped = false;
    let mut sent = 0usize;
    macro_rules! call {
        ($label:expr, $what:expr, $body:expr) => {{
            let r = std::panic::catch_unwind(std::panic::AssertUnwindSafe(|| guarded($label, || $body)));
            alloc::set_tag(alloc::TAG_HARNESS);
            match r {
                Ok(v) => Some(v),
                Err(e) => {
                    let m = crate::panic_message(&e);
                    viol.push(Violation::new("C03", "panic", &format!("panic:{}", crate::panic_site(&m)), format!("{} panicked: {} (pid-lap)", $what, m)));
                    stopped = true;
                    None
                }
            }
        }};
    }
    let mut deliver = |hc: &mut uv::HalfConnection, viol: &mut Vec<Violation>, c: &mut Counters, phase: &str| {
        let mut got: Vec<Box<[u8]>> = Vec::new();
        {
            let mut sink = PktSink { pkts: &mut got };
            hc.receive(&mut sink);
        }
        for g in got.iter() {
            c.inc("deliveries");
            if g.len() != 9 {
                viol.push(Violation::new("C01", "delivered-unknown", "C01:lap:delivered-unknown", format!("a {}-byte payload was delivered, every packet sent has 9 bytes", g.len())));
                continue;
            }
            let idx = u64::from_le_bytes([g[0], g[1], g[2], g[3], g[4], g[5], g[6], g[7]]) as usize;
            let ch = g[8] as usize % 64;
            if idx >= (1 << 20) {
                viol.push(Violation::new("C01", "delivered-unknown", "C01:lap:delivered-unknown", format!("payload index {} was never sent", idx)));
                continue;
            }
            if seen[idx / 64] >> (idx % 64) & 1 == 1 {
                if viol.iter().all(|v| v.sig != "C01:lap:delivered-twice") {
                    viol.push(Violation::new("C01", "delivered-twice", "C01:lap:delivered-twice", format!("packet #{} was handed to the application a second time ({}; {} packets after the original: its 20-bit id has come round and only the frame id tells the late copy apart)", idx, phase, total)));
                }
                c.inc("lap_duplicates_delivered");
            }
            seen[idx / 64] |= 1 << (idx % 64);
            if (idx as i64) < last_on_chan[ch] {
                if viol.iter().all(|v| v.sig != "C01:lap:channel-order") {
                    viol.push(Violation::new("C01", "channel-order", "C01:lap:channel-order", format!("channel {}: packet #{} delivered after #{} ({})", ch, idx, last_on_chan[ch], phase)));
                }
            }
            last_on_chan[ch] = last_on_chan[ch].max(idx as i64);
        }
    };
    while sent < total && !stopped {
        let n = per_frame.min(total - sent);
        let mut datagrams = Vec::with_capacity(n);
        for k in 0..n {
            let idx = sent + k;
            let ch = chans[idx % 3];
            let mut data = (idx as u64).to_le_bytes().to_vec();
            data.push(ch);
            datagrams.push(RDatagram { sequence_id: pid_add(base_pid, idx as u32), channel_id: ch, window_parent_lead: 0, channel_parent_lead: 0, fragment_id: 0, fragment_id_last: 0, data });
        }
        sent += n;
        let bytes = encode(&RFrame::Data { sequence_id: next_frame, nonce: rng.chance(0.5), datagrams });
        next_frame = next_frame.wrapping_add(1);
        if early.len() < 6 {
            early.push(bytes.clone());
        }
        now_ns += MS;
        uv::time::set_virtual_ns(Some(now_ns));
        if let Some(Some(uv::frame::Frame::DataFrame(df))) = call!(9, "Frame::read", uv::frame::Frame::read(&bytes)) {
            call!(4, "handle_data_frame", hc.handle_data_frame(df));
            c.inc("lap_frames");
        }
        if stopped {
            break;
        }
        call!(1, "step()", hc.step());
        if stopped {
            break;
        }
        call!(7, "receive()", deliver(&mut hc, &mut viol, &mut c, "first pass"));
        if rng.chance(0.02) {
            let mut sink = NullSink;
            call!(2, "flush()", hc.flush(&mut sink));
        }
    }
    let delivered_first = c.get("deliveries");
    // the late duplicates
    if !stopped {
        for b in early.iter() {
            now_ns += MS;
            uv::time::set_virtual_ns(Some(now_ns));
            if let Some(Some(uv::frame::Frame::DataFrame(df))) = call!(9, "Frame::read", uv::frame::Frame::read(b)) {
                call!(4, "handle_data_frame", hc.handle_data_frame(df));
                c.inc("lap_late_duplicate_frames");
            }
            if stopped {
                break;
            }
            call!(1, "step()", hc.step());
            call!(7, "receive()", deliver(&mut hc, &mut viol, &mut c, "after late duplicates of the first frames"));
        }
    }
    let _ = std::panic::catch_unwind(std::panic::AssertUnwindSafe(|| guarded(11, || drop(hc))));
    alloc::set_tag(alloc::TAG_HARNESS);
    let _ = alloc::take_violations();
    uv::time::set_virtual_ns(None);
    uv::rng::set_seed(None);
    out.evals += 1;
    c.add("lap_packets_sent", total as i128);
    if delivered_first as usize >= total * 9 / 10 && c.get("lap_late_duplicate_frames") >= 1 {
        out.nontrivial += 1;
        out.sigs.push(mix(seed, total as u64));
    } else if !stopped {
        out.inconclusive.push(format!("pid-lap: only {} of {} packets were delivered in the first pass", delivered_first, total));
    }
    for (k, v) in c.items {
        out.counters.add(k, v);
    }
    out.violations.extend(viol);
}
