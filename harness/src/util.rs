// Small dependency-free helpers: PRNG, hashing, JSON writer.

pub fn splitmix64(x: &mut u64) -> u64 {
    *x = x.wrapping_add(0x9E3779B97F4A7C15);
    let mut z = *x;
    z = (z ^ (z >> 30)).wrapping_mul(0xBF58476D1CE4E5B9);
    z = (z ^ (z >> 27)).wrapping_mul(0x94D049BB133111EB);
    z ^ (z >> 31)
}

pub fn mix(a: u64, b: u64) -> u64 {
    let mut x = a ^ b.wrapping_mul(0x9E3779B97F4A7C15).rotate_left(23);
    splitmix64(&mut x)
}

pub fn hash_str(s: &str) -> u64 {
    let mut h = 0xcbf29ce484222325u64;
    for b in s.bytes() {
        h ^= b as u64;
        h = h.wrapping_mul(0x100000001b3);
    }
    h
}

pub fn hash_bytes(h0: u64, data: &[u8]) -> u64 {
    let mut h = h0 ^ 0xcbf29ce484222325u64;
    for &b in data {
        h ^= b as u64;
        h = h.wrapping_mul(0x100000001b3);
    }
    h
}

#[derive(Clone)]
pub struct Rng {
    s: [u64; 4],
}

impl Rng {
    pub fn new(seed: u64) -> Self {
        let mut x = seed;
        let s = [splitmix64(&mut x), splitmix64(&mut x), splitmix64(&mut x), splitmix64(&mut x)];
        Self { s }
    }

    pub fn u64(&mut self) -> u64 {
        // xoshiro256**
        let result = self.s[1].wrapping_mul(5).rotate_left(7).wrapping_mul(9);
        let t = self.s[1] << 17;
        self.s[2] ^= self.s[0];
        self.s[3] ^= self.s[1];
        self.s[1] ^= self.s[2];
        self.s[0] ^= self.s[3];
        self.s[2] ^= t;
        self.s[3] = self.s[3].rotate_left(45);
        result
    }

    pub fn u32(&mut self) -> u32 {
        (self.u64() >> 32) as u32
    }

    /// uniform in [0, n)
    pub fn below(&mut self, n: u64) -> u64 {
        if n == 0 {
            return 0;
        }
        // multiply-shift, bias negligible for our n
        ((self.u64() as u128 * n as u128) >> 64) as u64
    }

    /// uniform in [lo, hi] inclusive
    pub fn range(&mut self, lo: u64, hi: u64) -> u64 {
        debug_assert!(lo <= hi);
        lo + self.below(hi - lo + 1)
    }

    pub fn f64(&mut self) -> f64 {
        (self.u64() >> 11) as f64 / (1u64 << 53) as f64
    }

    pub fn chance(&mut self, p: f64) -> bool {
        p > 0.0 && self.f64() < p
    }

    pub fn shuffle<T>(&mut self, items: &mut [T]) {
        for i in (1..items.len()).rev() {
            let j = self.below(i as u64 + 1) as usize;
            items.swap(i, j);
        }
    }
    pub fn pick<'a, T>(&mut self, items: &'a [T]) -> &'a T {
        &items[self.below(items.len() as u64) as usize]
    }

    /// log-uniform integer in [lo, hi]
    pub fn log_range(&mut self, lo: u64, hi: u64) -> u64 {
        let l = (lo.max(1) as f64).ln();
        let h = (hi.max(1) as f64).ln();
        let v = (l + (h - l) * self.f64()).exp().round() as u64;
        v.clamp(lo, hi)
    }

    pub fn fork(&mut self) -> Rng {
        Rng::new(self.u64())
    }
}

// ---------------------------------------------------------------------------------------------
// JSON

#[derive(Clone, Debug)]
pub enum J {
    Null,
    Bool(bool),
    Int(i128),
    Num(f64),
    Str(String),
    Arr(Vec<J>),
    Obj(Vec<(String, J)>),
}

impl J {
    pub fn obj() -> J {
        J::Obj(Vec::new())
    }

    pub fn set(&mut self, k: &str, v: J) -> &mut Self {
        if let J::Obj(ref mut items) = self {
            if let Some(e) = items.iter_mut().find(|(kk, _)| kk == k) {
                e.1 = v;
            } else {
                items.push((k.to_string(), v));
            }
        }
        self
    }

    pub fn with(mut self, k: &str, v: J) -> Self {
        self.set(k, v);
        self
    }

    pub fn s(v: &str) -> J {
        J::Str(v.to_string())
    }

    pub fn i<T: Into<i128>>(v: T) -> J {
        J::Int(v.into())
    }

    pub fn u(v: usize) -> J {
        J::Int(v as i128)
    }

    pub fn write(&self, out: &mut String) {
        match self {
            J::Null => out.push_str("null"),
            J::Bool(b) => out.push_str(if *b { "true" } else { "false" }),
            J::Int(i) => out.push_str(&i.to_string()),
            J::Num(f) => {
                if f.is_finite() {
                    out.push_str(&format!("{}", f));
                } else {
                    out.push_str("null");
                }
            }
            J::Str(s) => {
                out.push('"');
                for c in s.chars() {
                    match c {
                        '"' => out.push_str("\\\""),
                        '\\' => out.push_str("\\\\"),
                        '\n' => out.push_str("\\n"),
                        '\r' => out.push_str("\\r"),
                        '\t' => out.push_str("\\t"),
                        c if (c as u32) < 0x20 => out.push_str(&format!("\\u{:04x}", c as u32)),
                        c => out.push(c),
                    }
                }
                out.push('"');
            }
            J::Arr(items) => {
                out.push('[');
                for (i, it) in items.iter().enumerate() {
                    if i > 0 {
                        out.push(',');
                    }
                    it.write(out);
                }
                out.push(']');
            }
            J::Obj(items) => {
                out.push('{');
                for (i, (k, v)) in items.iter().enumerate() {
                    if i > 0 {
                        out.push(',');
                    }
                    J::Str(k.clone()).write(out);
                    out.push(':');
                    v.write(out);
                }
                out.push('}');
            }
        }
    }

    pub fn to_string(&self) -> String {
        let mut s = String::new();
        self.write(&mut s);
        s
    }
}

pub fn hex(data: &[u8]) -> String {
    let mut s = String::with_capacity(data.len() * 2);
    for b in data {
        s.push_str(&format!("{:02x}", b));
    }
    s
}

/// A per-scenario bag of named counters (insertion-ordered).
#[derive(Clone, Default)]
pub struct Counters {
    pub items: Vec<(&'static str, i128)>,
}

impl Counters {
    pub fn add(&mut self, k: &'static str, v: i128) {
        if let Some(e) = self.items.iter_mut().find(|(kk, _)| *kk == k) {
            e.1 += v;
        } else {
            self.items.push((k, v));
        }
    }
    pub fn inc(&mut self, k: &'static str) {
        self.add(k, 1);
    }
    pub fn max(&mut self, k: &'static str, v: i128) {
        if let Some(e) = self.items.iter_mut().find(|(kk, _)| *kk == k) {
            if v > e.1 {
                e.1 = v;
            }
        } else {
            self.items.push((k, v));
        }
    }
    pub fn get(&self, k: &str) -> i128 {
        self.items.iter().find(|(kk, _)| *kk == k).map_or(0, |e| e.1)
    }
    pub fn to_json(&self) -> J {
        J::Obj(self.items.iter().map(|(k, v)| (k.to_string(), J::Int(*v))).collect())
    }
}

/// One reported violation of a property inside a scenario.
#[derive(Clone, Debug)]
pub struct Violation {
    pub prop: &'static str,
    pub rule: String,
    /// stable signature used for known-finding matching (no line numbers, no seeds)
    pub sig: String,
    pub msg: String,
}

impl Violation {
    pub fn new(prop: &'static str, rule: &str, sig: &str, msg: String) -> Self {
        Self { prop, rule: rule.to_string(), sig: sig.to_string(), msg }
    }
    pub fn to_json(&self) -> J {
        J::obj()
            .with("prop", J::s(self.prop))
            .with("rule", J::s(&self.rule))
            .with("sig", J::s(&self.sig))
            .with("msg", J::s(&self.msg))
    }
}
