// Checking global allocator: System underneath; a side table (memory obtained from System
// directly, never through ourselves) records (size, align, scope tag) per live block. On
// dealloc/realloc the layout passed in is compared with the recorded one. Violations are recorded
// (not aborted on) so the scenario finishes and a witness can be written.
//
// Scope tags: the harness sets TAG=1 ("uflow") around every call into the library, so live_bytes(1)
// is the heap attributable to calls into uflow.

use std::alloc::{GlobalAlloc, Layout, System};
use std::cell::Cell;
use std::sync::atomic::{AtomicBool, AtomicI64, AtomicU64, AtomicUsize, Ordering};

pub const TAG_HARNESS: u8 = 0;
pub const TAG_UFLOW: u8 = 1;

thread_local! {
    static TAG: Cell<u8> = const { Cell::new(0) };
}

pub fn set_tag(tag: u8) -> u8 {
    TAG.try_with(|t| t.replace(tag)).unwrap_or(0)
}

fn cur_tag() -> u8 {
    TAG.try_with(|t| t.get()).unwrap_or(0)
}

/// Runs `f` with allocations attributed to uflow.
#[inline]
pub fn in_uflow<R>(f: impl FnOnce() -> R) -> R {
    let old = set_tag(TAG_UFLOW);
    let r = f();
    set_tag(old);
    r
}

/// Runs `f` with allocations attributed to the harness (used inside sinks called by uflow).
#[inline]
pub fn in_harness<R>(f: impl FnOnce() -> R) -> R {
    let old = set_tag(TAG_HARNESS);
    let r = f();
    set_tag(old);
    r
}

static LIVE: [AtomicI64; 2] = [AtomicI64::new(0), AtomicI64::new(0)];
static PEAK_UFLOW: AtomicI64 = AtomicI64::new(0);
static N_ALLOC: AtomicU64 = AtomicU64::new(0);
static N_FREE: AtomicU64 = AtomicU64::new(0);
static N_FREE_CHECKED: AtomicU64 = AtomicU64::new(0);

pub fn live_bytes(tag: u8) -> i64 {
    LIVE[tag as usize].load(Ordering::Relaxed)
}

pub fn reset_peak() {
    PEAK_UFLOW.store(live_bytes(TAG_UFLOW), Ordering::Relaxed);
}

pub fn peak_uflow() -> i64 {
    PEAK_UFLOW.load(Ordering::Relaxed)
}

pub fn counts() -> (u64, u64, u64) {
    (N_ALLOC.load(Ordering::Relaxed), N_FREE.load(Ordering::Relaxed), N_FREE_CHECKED.load(Ordering::Relaxed))
}

#[derive(Clone, Copy, Debug)]
pub struct AllocViolation {
    pub kind: u8, // 1 = layout mismatch on dealloc, 2 = unknown pointer, 3 = layout mismatch on realloc
    pub alloc_size: usize,
    pub alloc_align: usize,
    pub free_size: usize,
    pub free_align: usize,
    pub tag: u8,
}

const MAX_VIOL: usize = 16;
static VIOL_COUNT: AtomicUsize = AtomicUsize::new(0);
static mut VIOLS: [AllocViolation; MAX_VIOL] =
    [AllocViolation { kind: 0, alloc_size: 0, alloc_align: 0, free_size: 0, free_align: 0, tag: 0 }; MAX_VIOL];

fn record_violation(v: AllocViolation) {
    let i = VIOL_COUNT.fetch_add(1, Ordering::SeqCst);
    if i < MAX_VIOL {
        unsafe {
            let p = std::ptr::addr_of_mut!(VIOLS) as *mut AllocViolation;
            p.add(i).write(v);
        }
    }
}

/// Returns the violations recorded since the last call and clears them.
pub fn take_violations() -> (usize, Vec<AllocViolation>) {
    let n = VIOL_COUNT.swap(0, Ordering::SeqCst);
    let mut out = Vec::new();
    for i in 0..n.min(MAX_VIOL) {
        unsafe {
            let p = std::ptr::addr_of!(VIOLS) as *const AllocViolation;
            out.push(p.add(i).read());
        }
    }
    (n, out)
}

// ---- side table: open addressing, linear probing, backward-shift deletion --------------------

#[derive(Clone, Copy)]
struct Slot {
    ptr: usize, // 0 = empty
    size: usize,
    align: u32,
    tag: u8,
}

struct Table {
    slots: *mut Slot,
    cap: usize, // power of two or 0
    len: usize,
}

static LOCK: AtomicBool = AtomicBool::new(false);
static mut TABLE: Table = Table { slots: std::ptr::null_mut(), cap: 0, len: 0 };

struct Guard;
impl Guard {
    fn new() -> Guard {
        while LOCK.compare_exchange_weak(false, true, Ordering::Acquire, Ordering::Relaxed).is_err() {
            std::hint::spin_loop();
        }
        Guard
    }
}
impl Drop for Guard {
    fn drop(&mut self) {
        LOCK.store(false, Ordering::Release);
    }
}

#[inline]
fn hash_ptr(p: usize) -> usize {
    let mut x = p as u64;
    x ^= x >> 33;
    x = x.wrapping_mul(0xff51afd7ed558ccd);
    x ^= x >> 33;
    x as usize
}

impl Table {
    unsafe fn grow(&mut self) {
        let new_cap = if self.cap == 0 { 1 << 16 } else { self.cap * 2 };
        let layout = Layout::array::<Slot>(new_cap).unwrap();
        let new_slots = System.alloc_zeroed(layout) as *mut Slot;
        if new_slots.is_null() {
            std::process::abort();
        }
        let old = self.slots;
        let old_cap = self.cap;
        self.slots = new_slots;
        self.cap = new_cap;
        self.len = 0;
        for i in 0..old_cap {
            let s = *old.add(i);
            if s.ptr != 0 {
                self.insert_nogrow(s);
            }
        }
        if !old.is_null() {
            System.dealloc(old as *mut u8, Layout::array::<Slot>(old_cap).unwrap());
        }
    }

    unsafe fn insert_nogrow(&mut self, s: Slot) {
        let mask = self.cap - 1;
        let mut i = hash_ptr(s.ptr) & mask;
        loop {
            let cur = &mut *self.slots.add(i);
            if cur.ptr == 0 || cur.ptr == s.ptr {
                if cur.ptr == 0 {
                    self.len += 1;
                }
                *cur = s;
                return;
            }
            i = (i + 1) & mask;
        }
    }

    unsafe fn insert(&mut self, s: Slot) {
        if self.cap == 0 || (self.len + 1) * 2 > self.cap {
            self.grow();
        }
        self.insert_nogrow(s);
    }

    unsafe fn remove(&mut self, ptr: usize) -> Option<Slot> {
        if self.cap == 0 {
            return None;
        }
        let mask = self.cap - 1;
        let mut i = hash_ptr(ptr) & mask;
        loop {
            let cur = *self.slots.add(i);
            if cur.ptr == 0 {
                return None;
            }
            if cur.ptr == ptr {
                // backward-shift deletion
                let mut hole = i;
                let mut j = (i + 1) & mask;
                loop {
                    let nxt = *self.slots.add(j);
                    if nxt.ptr == 0 {
                        break;
                    }
                    let home = hash_ptr(nxt.ptr) & mask;
                    // can nxt move to hole? yes if home is not in (hole, j] cyclically
                    let dist_home = j.wrapping_sub(home) & mask;
                    let dist_hole = j.wrapping_sub(hole) & mask;
                    if dist_home >= dist_hole {
                        *self.slots.add(hole) = nxt;
                        hole = j;
                    }
                    j = (j + 1) & mask;
                }
                (*self.slots.add(hole)).ptr = 0;
                self.len -= 1;
                return Some(cur);
            }
            i = (i + 1) & mask;
        }
    }
}

pub struct CheckAlloc;

impl CheckAlloc {
    unsafe fn note_alloc(&self, p: *mut u8, layout: Layout) {
        if p.is_null() {
            return;
        }
        let tag = cur_tag();
        {
            let _g = Guard::new();
            let t = &mut *std::ptr::addr_of_mut!(TABLE);
            t.insert(Slot { ptr: p as usize, size: layout.size(), align: layout.align() as u32, tag });
        }
        N_ALLOC.fetch_add(1, Ordering::Relaxed);
        let live = LIVE[tag as usize].fetch_add(layout.size() as i64, Ordering::Relaxed) + layout.size() as i64;
        if tag == TAG_UFLOW {
            PEAK_UFLOW.fetch_max(live, Ordering::Relaxed);
        }
    }

    /// Returns false for a pointer the table does not know (freed already, or never allocated).
    unsafe fn note_free(&self, p: *mut u8, layout: Layout, kind_mismatch: u8) -> bool {
        let slot = {
            let _g = Guard::new();
            let t = &mut *std::ptr::addr_of_mut!(TABLE);
            t.remove(p as usize)
        };
        N_FREE.fetch_add(1, Ordering::Relaxed);
        match slot {
            Some(s) => {
                N_FREE_CHECKED.fetch_add(1, Ordering::Relaxed);
                LIVE[s.tag as usize].fetch_sub(s.size as i64, Ordering::Relaxed);
                if s.size != layout.size() || s.align as usize != layout.align() {
                    record_violation(AllocViolation {
                        kind: kind_mismatch,
                        alloc_size: s.size,
                        alloc_align: s.align as usize,
                        free_size: layout.size(),
                        free_align: layout.align(),
                        tag: s.tag,
                    });
                }
            }
            None => {
                record_violation(AllocViolation {
                    kind: 2,
                    alloc_size: 0,
                    alloc_align: 0,
                    free_size: layout.size(),
                    free_align: layout.align(),
                    tag: cur_tag(),
                });
                return false;
            }
        }
        true
    }
}

unsafe impl GlobalAlloc for CheckAlloc {
    unsafe fn alloc(&self, layout: Layout) -> *mut u8 {
        let p = System.alloc(layout);
        self.note_alloc(p, layout);
        p
    }

    unsafe fn alloc_zeroed(&self, layout: Layout) -> *mut u8 {
        let p = System.alloc_zeroed(layout);
        self.note_alloc(p, layout);
        p
    }

    unsafe fn dealloc(&self, p: *mut u8, layout: Layout) {
        // Free with the layout the block was really allocated with would hide nothing from the
        // system allocator (glibc ignores the size), so just pass through - except for a block
        // that is not live (a second free): handing that to the system allocator would abort or
        // corrupt the process before the violation is reported, so it is recorded and dropped.
        if self.note_free(p, layout, 1) {
            System.dealloc(p, layout);
        }
    }

    unsafe fn realloc(&self, p: *mut u8, layout: Layout, new_size: usize) -> *mut u8 {
        // Look the block up first so a mismatching layout is reported even when realloc succeeds.
        let (old_tag, known) = {
            let _g = Guard::new();
            let t = &mut *std::ptr::addr_of_mut!(TABLE);
            match t.remove(p as usize) {
                Some(s) => {
                    t.insert(s);
                    (s.tag, Some(s))
                }
                None => (cur_tag(), None),
            }
        };
        let q = System.realloc(p, layout, new_size);
        if q.is_null() {
            return q;
        }
        self.note_free(p, layout, 3);
        let _ = known;
        // keep the block attributed to whoever allocated it first
        let saved = set_tag(old_tag);
        self.note_alloc(q, Layout::from_size_align_unchecked(new_size, layout.align()));
        set_tag(saved);
        q
    }
}
