// Boundary model of one direction of a connection (sender X -> receiver Y), fed only from what
// crosses the API and the wire: submissions, emitted frames, ack frames handed to the sender,
// deliveries at the receiver, and the public observables. Hosts the history oracles for
// C01 C02(safety) C04 C05 C06(sender) C12 C20.

use crate::payload;
use crate::util::*;
use crate::wire::*;
use std::collections::{HashMap, VecDeque};

#[derive(Clone, Copy, PartialEq, Eq, Debug)]
pub enum Mode {
    TimeSensitive,
    Unreliable,
    Persistent,
    Reliable,
}

impl Mode {
    pub fn to_uflow(self) -> uflow::SendMode {
        match self {
            Mode::TimeSensitive => uflow::SendMode::TimeSensitive,
            Mode::Unreliable => uflow::SendMode::Unreliable,
            Mode::Persistent => uflow::SendMode::Persistent,
            Mode::Reliable => uflow::SendMode::Reliable,
        }
    }
    pub fn resends(self) -> bool {
        matches!(self, Mode::Persistent | Mode::Reliable)
    }
    pub fn name(self) -> &'static str {
        match self {
            Mode::TimeSensitive => "TS",
            Mode::Unreliable => "U",
            Mode::Persistent => "P",
            Mode::Reliable => "R",
        }
    }
}

pub fn nfrag_of(len: usize) -> u32 {
    if len == 0 {
        1
    } else {
        ((len + MAX_FRAGMENT_SIZE - 1) / MAX_FRAGMENT_SIZE) as u32
    }
}

pub fn alloc_size_of(len: usize) -> usize {
    if len > MAX_FRAGMENT_SIZE {
        nfrag_of(len) as usize * MAX_FRAGMENT_SIZE
    } else {
        len
    }
}

pub fn ceil_frag(v: usize) -> usize {
    ((v + MAX_FRAGMENT_SIZE - 1) / MAX_FRAGMENT_SIZE) * MAX_FRAGMENT_SIZE
}

pub struct Sub {
    pub chan: u8,
    pub mode: Mode,
    pub len: usize,
    pub pay_uid: u64,
    pub t_ns: u64,
    pub epoch: u64,
    pub nfrag: u32,
    pub pid: Option<u32>,
    pub tx: Vec<u8>,
    /// virtual time (ms) each fragment was last seen on the wire
    pub last_tx_ms: Vec<u32>,
    pub acked: Vec<u64>,
    pub n_acked: u32,
    pub n_first_tx: u32,
    pub passed: bool,
    pub discarded: bool,
    pub stale_counted: bool,
    pub delivered: u32,
    pub t_delivered_ns: u64,
}

struct FrameRec {
    nonce: bool,
    frags: Vec<(usize, u32)>, // (sub idx, fragment)
    t_ms: u32,                // the sender's clock reading when the frame was emitted (its last step())
    acked: bool,              // an accepted ack group has named it
}

pub struct DirModel {
    pub name: &'static str, // "A->B" / "B->A"
    pub subs: Vec<Sub>,
    by_uid: HashMap<u64, usize>,
    amb: HashMap<(u8, u64), VecDeque<usize>>,
    pub amb_chan: u8,

    next_map: usize,
    pub base_pid: u32,
    pub next_pid: u32,
    pid_map: VecDeque<usize>,
    /// (packet id, submission) of packets an accepted window ack has passed, newest last
    passed_recent: VecDeque<(u32, usize)>,
    frames: HashMap<u32, FrameRec>,
    expect_frame_id: Option<u32>,

    pub window: u32,
    pub peer_alloc_ceil: usize,
    outstanding_pkts: usize,
    outstanding_alloc: usize,

    // C20 accounting
    live_sum: usize,     // accepted, not passed, not provably discarded
    unmapped_sum: usize, // accepted, no pid yet, not provably discarded
    stale_sum: usize,    // subset of unmapped: TimeSensitive and stale (may have been discarded lazily)
    ts_fresh: Vec<usize>,
    pub total_submitted_bytes: usize,
    cur_epoch: u64,
    n_unsettled: usize,

    // C12
    unacked_pr_frags: u64,
    /// (submission, epoch) of a packet the sender has given an id to but not yet put on the wire
    /// (diagnosis only, from the read-only id accessor)
    pulled: Option<(usize, u64)>,

    // delivery side
    last_delivered_idx: [i64; 64],
    undelivered_reliable: Vec<VecDeque<usize>>,
    last_global_delivered: i64,
    pub ideal: bool, // C05 rules apply (network neither loses, duplicates nor reorders)

    // progress markers
    pub n_delivered: u64,
    pub n_first_tx: u64,
    pub n_acked_frags: u64,
    pub n_passed: u64,

    pub honest_peer: bool,
    /// virtual time in ms, kept current by the simulator (only used to date transmissions)
    pub clock_ms: u32,
    /// the time the sender itself stamps on the frames it emits now: that of its last step()
    /// (flush() works with the clock reading stored by the previous step())
    pub stamp_ms: u32,
    reported_phantom: bool,
    reported_untransmitted: bool,
    /// send time of the newest data frame first acknowledged since the sender's last step
    pub fb_newest_send_ms: Option<u32>,
    pub violations: Vec<Violation>,
    pub c: Counters,
}

fn bit_get(v: &[u64], i: u32) -> bool {
    v[(i / 64) as usize] >> (i % 64) & 1 != 0
}
fn bit_set(v: &mut [u64], i: u32) {
    v[(i / 64) as usize] |= 1 << (i % 64);
}

impl DirModel {
    pub fn new(name: &'static str, tx_nonce: u32, window: u32, peer_alloc: usize, amb_chan: u8) -> Self {
        Self {
            name,
            subs: Vec::new(),
            by_uid: HashMap::new(),
            amb: HashMap::new(),
            amb_chan,
            next_map: 0,
            base_pid: tx_nonce & PID_MASK,
            next_pid: tx_nonce & PID_MASK,
            pid_map: VecDeque::new(),
            passed_recent: VecDeque::new(),
            frames: HashMap::new(),
            expect_frame_id: Some(tx_nonce),
            window,
            peer_alloc_ceil: ceil_frag(peer_alloc),
            outstanding_pkts: 0,
            outstanding_alloc: 0,
            live_sum: 0,
            unmapped_sum: 0,
            stale_sum: 0,
            ts_fresh: Vec::new(),
            total_submitted_bytes: 0,
            cur_epoch: 0,
            n_unsettled: 0,
            unacked_pr_frags: 0,
            pulled: None,
            last_delivered_idx: [-1; 64],
            undelivered_reliable: (0..64).map(|_| VecDeque::new()).collect(),
            last_global_delivered: -1,
            ideal: false,
            n_delivered: 0,
            n_first_tx: 0,
            n_acked_frags: 0,
            n_passed: 0,
            honest_peer: true,
            clock_ms: 0,
            stamp_ms: 0,
            reported_untransmitted: false,
            fb_newest_send_ms: None,
            reported_phantom: false,
            violations: Vec::new(),
            c: Counters::default(),
        }
    }

    fn viol(&mut self, prop: &'static str, rule: &str, msg: String) {
        if self.violations.len() < 40 {
            let sig = format!("{}:{}", prop, rule);
            self.violations.push(Violation::new(prop, rule, &sig, format!("[{}] {}", self.name, msg)));
        }
    }

    pub fn frame_nonce(&self, id: u32) -> Option<bool> {
        self.frames.get(&id).map(|r| r.nonce)
    }

    /// C12 "retransmitted until acknowledged", judged when the connection has made no progress for
    /// `window_ms` on a fair network: a fragment of a Persistent / Reliable packet that has been given
    /// its packet id (some fragment of it was on the wire), whose acknowledgement has not been handed
    /// to the sender and which the receiver has not reported moving past, must have been on the wire
    /// within that window. Returns a description of the first fragment for which that is not so.
    pub fn unacked_fragment_not_retransmitted(&self, now_ms: u32, window_ms: u32, sender_holds_nothing: bool) -> Option<String> {
        // a Persistent / Reliable packet that never reached the wire at all although the sender no
        // longer holds anything (send queue, pending fragments and resend queue empty, send buffer
        // size 0): it was dropped without a single transmission
        if sender_holds_nothing {
            for (idx, s) in self.subs.iter().enumerate() {
                if s.mode.resends() && s.pid.is_none() && !s.discarded && !s.passed && s.delivered == 0 && s.t_ns / 1_000_000 + (window_ms as u64) < now_ms as u64 {
                    return Some(format!("{} submission #{} ({} bytes, channel {}, submitted at t={} ms) was never transmitted, not one fragment, and the sender no longer holds it: its queues are empty and send_buffer_size() is 0 (now t={} ms)", s.mode.name(), idx, s.len, s.chan, s.t_ns / 1_000_000, now_ms));
                }
            }
        }
        for (idx, s) in self.subs.iter().enumerate() {
            if !s.mode.resends() || s.pid.is_none() || s.passed || s.discarded || s.n_acked >= s.nfrag || s.tx.is_empty() {
                continue;
            }
            // only once every fragment that WAS sent is either acknowledged or silent too: a packet
            // still being cut across flushes has fragments that legitimately wait for their turn
            for f in 0..s.nfrag {
                if bit_get(&s.acked, f) {
                    continue;
                }
                let last = s.last_tx_ms[f as usize];
                let never = s.tx[f as usize] == 0;
                if never || now_ms.saturating_sub(last) > window_ms {
                    return Some(format!("fragment {} of {} submission #{} (packet id {:?}, {} fragments, {} acknowledged) is unacknowledged and not passed, but {} (now t={} ms, no progress for {} ms on a fair network)", f, s.mode.name(), idx, s.pid, s.nfrag, s.n_acked, if never { "was never transmitted although other fragments of the packet were".to_string() } else { format!("was last transmitted at t={} ms", last) }, now_ms, window_ms));
                }
            }
        }
        None
    }

    pub fn progress_marker(&self) -> u64 {
        self.n_delivered + self.n_first_tx + self.n_acked_frags + self.n_passed
    }

    // ---- submissions ---------------------------------------------------------------------

    /// Registers a packet the application is about to submit; returns the payload to send.
    pub fn submit(&mut self, chan: u8, mode: Mode, len: usize, uid_counter: u64, t_ns: u64, epoch: u64) -> Box<[u8]> {
        let idx = self.subs.len();
        let pay_uid = uid_counter;
        let nfrag = nfrag_of(len);
        self.subs.push(Sub {
            chan,
            mode,
            len,
            pay_uid,
            t_ns,
            epoch,
            nfrag,
            pid: None,
            tx: Vec::new(),
            last_tx_ms: Vec::new(),
            acked: Vec::new(),
            n_acked: 0,
            n_first_tx: 0,
            passed: false,
            discarded: false,
            stale_counted: false,
            delivered: 0,
            t_delivered_ns: 0,
        });
        if len >= 4 {
            self.by_uid.insert(pay_uid & if len >= 8 { u64::MAX } else { (1u64 << (8 * len)) - 1 }, idx);
        } else {
            let val = if len == 0 { 0 } else { pay_uid & ((1u64 << (8 * len)) - 1) };
            self.amb.entry((len as u8, val)).or_default().push_back(idx);
        }
        if mode == Mode::Reliable {
            self.undelivered_reliable[chan as usize].push_back(idx);
        }
        if mode == Mode::TimeSensitive {
            self.ts_fresh.push(idx);
        }
        self.live_sum += len;
        self.unmapped_sum += len;
        self.n_unsettled += 1;
        self.total_submitted_bytes += len;
        self.c.inc(match mode {
            Mode::TimeSensitive => "sub_ts",
            Mode::Unreliable => "sub_u",
            Mode::Persistent => "sub_p",
            Mode::Reliable => "sub_r",
        });
        if nfrag > 1 {
            self.c.inc("sub_multifrag");
        }
        payload::make(pay_uid, len)
    }

    /// The sender's `step()` was called (TimeSensitive packets queued before it become stale).
    pub fn on_sender_step(&mut self) {
        self.cur_epoch += 1;
        let fresh = std::mem::take(&mut self.ts_fresh);
        for idx in fresh {
            let s = &mut self.subs[idx];
            if s.pid.is_none() && !s.discarded && !s.stale_counted {
                s.stale_counted = true;
                self.stale_sum += s.len;
            }
        }
    }

    /// Diagnosis hook, called after every flush with the sender's real next packet id: if it is
    /// ahead of what the wire has shown, one packet was taken from the queue and none of it sent.
    pub fn note_pulled(&mut self, real_next_pid: u32) {
        if real_next_pid == self.next_pid {
            return;
        }
        if let Some((k, _)) = self.pulled {
            // still the same dequeued-but-unsent packet as at an earlier flush
            if k >= self.next_map && self.subs[k].pid.is_none() && !self.subs[k].discarded {
                return;
            }
        }
        let mut k = self.next_map;
        while k < self.subs.len() {
            let s = &self.subs[k];
            if s.mode == Mode::TimeSensitive && s.epoch < self.cur_epoch {
                k += 1;
                continue;
            }
            break;
        }
        if k < self.subs.len() && self.pulled.map(|p| p.0) != Some(k) {
            self.pulled = Some((k, self.cur_epoch));
        }
    }

    // ---- wire ----------------------------------------------------------------------------

    fn map_new_pid(&mut self, dg: &RDatagram) -> Option<usize> {
        // The next unmapped submission that matches; only TimeSensitive packets may be skipped.
        loop {
            if self.next_map >= self.subs.len() {
                self.viol("C01", "wire-unknown-packet", format!("new packet id {} on the wire (chan {}, {} bytes in fragment {}) but every submitted packet already has an id", dg.sequence_id, dg.channel_id, dg.data.len(), dg.fragment_id));
                return None;
            }
            let idx = self.next_map;
            let s = &self.subs[idx];
            let frag_len = if s.nfrag == 1 { s.len } else { MAX_FRAGMENT_SIZE.min(s.len) };
            let is_match = dg.fragment_id == 0
                && dg.channel_id == s.chan
                && dg.fragment_id_last as u32 == s.nfrag - 1
                && dg.data.len() == frag_len
                && payload::matches(s.pay_uid, s.len, 0, &dg.data);
            if is_match {
                self.next_map += 1;
                return Some(idx);
            }
            if s.mode == Mode::TimeSensitive {
                // skipped by the sender: provably discarded
                let len = s.len;
                let stale = s.epoch < self.cur_epoch;
                let was_counted = s.stale_counted;
                let s = &mut self.subs[idx];
                s.discarded = true;
                self.n_unsettled -= 1;
                self.live_sum -= len;
                self.unmapped_sum -= len;
                if was_counted {
                    self.stale_sum -= len;
                }
                self.c.inc("ts_discarded");
                if !stale {
                    self.c.inc("ts_discarded_while_fresh");
                }
                self.next_map += 1;
                continue;
            }
            let (m, c, l) = (s.mode.name(), s.chan, s.len);
            self.viol("C05", "sender-skipped-packet", format!("sender gave packet id {} to a later packet although submission #{} (mode {}, chan {}, {} bytes) was never transmitted", dg.sequence_id, idx, m, c, l));
            // keep the model usable: treat as discarded
            let len = self.subs[idx].len;
            self.subs[idx].discarded = true;
            self.n_unsettled -= 1;
            self.live_sum -= len;
            self.unmapped_sum -= len;
            self.next_map += 1;
        }
    }

    /// A frame left the sender at t_ns. `epoch_now` = number of step() calls made so far.
    pub fn on_wire(&mut self, bytes: &[u8], frame: &RFrame) {
        if bytes.len() > MAX_FRAME_SIZE {
            self.viol("C04", "frame-too-long", format!("emitted frame of {} bytes (> 1472)", bytes.len()));
        }
        let (frame_id, nonce, datagrams) = match frame {
            RFrame::Data { sequence_id, nonce, datagrams } => (*sequence_id, *nonce, datagrams),
            _ => return,
        };
        let clock_ms = self.clock_ms;
        self.c.inc("wire_data_frames");
        if let Some(exp) = self.expect_frame_id {
            if frame_id != exp {
                self.viol("C01", "frame-id-sequence", format!("data frame id {} on the wire, expected {}", frame_id, exp));
            }
        }
        self.expect_frame_id = Some(frame_id.wrapping_add(1));
        let mut rec = FrameRec { nonce, frags: Vec::with_capacity(datagrams.len()), t_ms: self.stamp_ms, acked: false };
        for dg in datagrams {
            let pid = dg.sequence_id;
            let off = pid_sub(pid, self.base_pid);
            let span = pid_sub(self.next_pid, self.base_pid);
            let idx = if pid == self.next_pid && (off == span) {
                // first appearance of a new packet id
                match self.map_new_pid(dg) {
                    Some(idx) => {
                        let nf = self.subs[idx].nfrag as usize;
                        let len = self.subs[idx].len;
                        {
                            let s = &mut self.subs[idx];
                            s.pid = Some(pid);
                            s.tx = vec![0u8; nf];
                            s.last_tx_ms = vec![0u32; nf];
                            s.acked = vec![0u64; (nf + 63) / 64];
                        }
                        self.unmapped_sum -= len;
                        if self.subs[idx].stale_counted {
                            self.stale_sum -= len;
                            self.subs[idx].stale_counted = false;
                        }
                        self.pid_map.push_back(idx);
                        self.next_pid = pid_add(self.next_pid, 1);
                        self.outstanding_pkts += 1;
                        self.outstanding_alloc += alloc_size_of(len);
                        if self.subs[idx].mode.resends() {
                            self.unacked_pr_frags += nf as u64;
                        }
                        // C06 sender half
                        if self.outstanding_pkts > self.window as usize || self.outstanding_pkts > 4096 {
                            let (o, w) = (self.outstanding_pkts, self.window);
                            self.viol("C06", "sender-window-exceeded", format!("{} packets outstanding (first-transmitted, not passed by an accepted window ack) with window {}", o, w));
                        }
                        if self.outstanding_alloc > self.peer_alloc_ceil {
                            let (o, w) = (self.outstanding_alloc, self.peer_alloc_ceil);
                            self.viol("C06", "sender-alloc-exceeded", format!("{} fragment-rounded bytes outstanding, peer advertised {} (rounded up)", o, w));
                        }
                        if self.outstanding_pkts == self.window as usize {
                            self.c.inc("sender_at_window_limit");
                        }
                        if self.outstanding_alloc + MAX_FRAGMENT_SIZE > self.peer_alloc_ceil {
                            self.c.inc("sender_near_alloc_limit");
                        }
                        self.c.max("max_outstanding_pkts", self.outstanding_pkts as i128);
                        self.c.max("max_outstanding_alloc", self.outstanding_alloc as i128);
                        // C12: TimeSensitive must begin transmission before the next step()
                        let s = &self.subs[idx];
                        if s.mode == Mode::TimeSensitive && s.epoch != self.cur_epoch {
                            let (e0, e1, l) = (s.epoch, self.cur_epoch, s.len);
                            if self.pulled == Some((idx, e0)) {
                                self.viol("C12", "ts-first-fragment-deferred-after-dequeue", format!("TimeSensitive submission #{} ({} bytes) queued in step epoch {} was taken from the send queue in time, but its first fragment found no credit / frame window and was transmitted in epoch {}", idx, l, e0, e1));
                            } else {
                                self.viol("C12", "ts-sent-after-step", format!("TimeSensitive submission #{} ({} bytes) queued in step epoch {} began transmission in epoch {}", idx, l, e0, e1));
                            }
                        }
                        idx
                    }
                    None => continue,
                }
            } else if off < span {
                self.pid_map[off as usize]
            } else if let Some(&(_, idx)) = self.passed_recent.iter().rev().find(|(p, _)| *p == pid) {
                // a packet the receiver has reported moving past (accepted window ack) is on the wire again
                let s = &self.subs[idx];
                let f = dg.fragment_id as usize;
                let same = dg.channel_id == s.chan && dg.fragment_id_last as u32 == s.nfrag - 1 && (f as u32) < s.nfrag && payload::matches(s.pay_uid, s.len, f * MAX_FRAGMENT_SIZE, &dg.data);
                let (name, l) = (s.mode.name(), s.len);
                if same {
                    self.viol("C12", "retransmit-after-pass", format!("fragment {} of {} submission #{} (packet id {}, {} bytes) transmitted after the receiver reported moving past the packet", f, name, idx, pid, l));
                } else {
                    let (b, n) = (self.base_pid, self.next_pid);
                    self.viol("C01", "wire-packet-id-out-of-window", format!("packet id {} on the wire outside the sender's own window [{}, {}) and not the next id (the id last belonged to submission #{}, whose bytes these are not)", pid, b, n, idx));
                }
                continue;
            } else {
                let (b, n) = (self.base_pid, self.next_pid);
                self.viol("C01", "wire-packet-id-out-of-window", format!("packet id {} on the wire outside the sender's own window [{}, {}) and not the next id", pid, b, n));
                // C12: ids are handed out in submission order, so a first transmission a few ids
                // beyond the next one means the packets in between were given an id and then dropped
                // without ever being transmitted; only a stale TimeSensitive packet may go that way
                let ahead = pid_sub(pid, n);
                if ahead >= 1 && ahead <= 8 && self.honest_peer && !self.reported_untransmitted {
                    // the submissions that the missing ids belong to: the next `ahead` ones in line,
                    // not counting TimeSensitive packets (which may have been discarded unsent)
                    let mut cand: Vec<usize> = Vec::new();
                    let mut i = self.next_map;
                    while i < self.subs.len() && cand.len() < ahead as usize {
                        if self.subs[i].mode != Mode::TimeSensitive && self.subs[i].pid.is_none() && !self.subs[i].discarded {
                            cand.push(i);
                        }
                        i += 1;
                    }
                    if let Some(idx) = cand.into_iter().find(|&i| self.subs[i].mode.resends()) {
                        self.reported_untransmitted = true;
                        let (name, len, chan, t) = (self.subs[idx].mode.name(), self.subs[idx].len, self.subs[idx].chan, self.subs[idx].t_ns / 1_000_000);
                        self.viol("C12", "resendable-packet-dropped-untransmitted", format!("packet id {} makes its first appearance on the wire although id {} never did: {} submission #{} ({} bytes, channel {}, submitted at t={} ms), the next in line for an id, was never transmitted — the sender dropped a packet it has to retransmit until acknowledged", pid, n, name, idx, len, chan, t));
                    }
                }
                continue;
            };
            // C04: datagram slicing
            let (s_len, s_nfrag, s_chan, s_uid, s_mode) = {
                let s = &self.subs[idx];
                (s.len, s.nfrag, s.chan, s.pay_uid, s.mode)
            };
            let f = dg.fragment_id as u32;
            let ok_header = dg.channel_id == s_chan && dg.fragment_id_last as u32 == s_nfrag - 1 && f < s_nfrag;
            let lo = f as usize * MAX_FRAGMENT_SIZE;
            let hi = (lo + MAX_FRAGMENT_SIZE).min(s_len);
            let ok_data = ok_header && dg.data.len() == hi.saturating_sub(lo) && payload::matches(s_uid, s_len, lo, &dg.data);
            if !ok_data {
                self.viol("C04", "bad-fragment-on-wire", format!("datagram for packet id {} fragment {}/{} chan {} with {} bytes does not equal bytes [{},{}) of submission #{} ({} bytes, chan {})", pid, dg.fragment_id, dg.fragment_id_last, dg.channel_id, dg.data.len(), lo, hi, idx, s_len, s_chan));
                continue;
            }
            // C12: transmissions per fragment
            let (already, passed, acked) = {
                let s = &self.subs[idx];
                (s.tx[f as usize], s.passed, bit_get(&s.acked, f))
            };
            if already == 0 {
                self.n_first_tx += 1;
                self.subs[idx].n_first_tx += 1;
                self.c.inc("frag_first_tx");
            } else {
                self.c.inc("frag_retx");
                if !s_mode.resends() {
                    self.viol("C12", "unreliable-fragment-retransmitted", format!("fragment {} of {} submission #{} transmitted {} times", f, s_mode.name(), idx, already as u32 + 1));
                }
            }
            if s_mode.resends() && self.honest_peer {
                if acked {
                    self.viol("C12", "retransmit-after-ack", format!("fragment {} of {} submission #{} (packet id {}) transmitted after its acknowledgement was processed", f, s_mode.name(), idx, pid));
                } else if passed {
                    self.viol("C12", "retransmit-after-pass", format!("fragment {} of {} submission #{} (packet id {}) transmitted after the receiver reported moving past the packet", f, s_mode.name(), idx, pid));
                }
            }
            let s = &mut self.subs[idx];
            s.tx[f as usize] = s.tx[f as usize].saturating_add(1);
            s.last_tx_ms[f as usize] = clock_ms;
            rec.frags.push((idx, f));
        }
        self.frames.insert(frame_id, rec);
        if self.frames.len() > 3 * 8192 {
            // forget records far behind (never consulted again: the sender's log spans < 2*4096 frames)
            let cutoff = frame_id.wrapping_sub(2 * 8192);
            self.frames.retain(|id, _| id.wrapping_sub(cutoff) < 3 * 8192);
        }
    }

    /// An ack frame is about to be handed to the sender. `has_frame(id)`: is the frame still in the
    /// sender's log (read-only accessor).
    pub fn on_ack_to_sender(&mut self, frame: &RFrame, has_frame: &dyn Fn(u32) -> bool) {
        let (packet_base, groups) = match frame {
            RFrame::Acks { packet_window_base_id, groups, .. } => (*packet_window_base_id, groups),
            _ => return,
        };
        self.c.inc("acks_to_sender");
        for g in groups {
            if g.bitfield == 0 {
                continue;
            }
            let size = 32 - g.bitfield.leading_zeros();
            let mut all_known = true;
            let mut parity = false;
            for i in 0..size {
                let id = g.base_id.wrapping_add(i);
                if !has_frame(id) {
                    all_known = false;
                    break;
                }
                // the sender's own log may only know frames that were put on the wire (the model
                // remembers the last 24576 of them, three times the longest log)
                if !self.frames.contains_key(&id) && !self.reported_phantom {
                    self.reported_phantom = true;
                    self.viol("C15", "sender-log-knows-unsent-frame", format!("the sender's frame log answers for frame id {} (named by ack group base {} bitfield {:#x}) although no frame with that id was ever transmitted", id, g.base_id, g.bitfield));
                }
                if g.bitfield >> i & 1 != 0 {
                    match self.frames.get(&id) {
                        Some(r) => parity ^= r.nonce,
                        None => {
                            all_known = false;
                            break;
                        }
                    }
                }
            }
            if !all_known {
                self.c.inc("ack_groups_ignored_unknown_frame");
                continue;
            }
            if parity != g.nonce {
                self.c.inc("ack_groups_ignored_bad_nonce");
                continue;
            }
            self.c.inc("ack_groups_processed");
            for i in 0..size {
                if g.bitfield >> i & 1 == 0 {
                    continue;
                }
                let id = g.base_id.wrapping_add(i);
                let frags = match self.frames.get_mut(&id) {
                    Some(r) => {
                        if !r.acked {
                            // first acknowledgement of this frame: it takes part in the sender's
                            // next RTT sample (the newest such frame decides, RFC 5348 4.3)
                            r.acked = true;
                            self.fb_newest_send_ms = Some(self.fb_newest_send_ms.map_or(r.t_ms, |t| t.max(r.t_ms)));
                        }
                        std::mem::take(&mut r.frags)
                    }
                    None => continue,
                };
                for (idx, f) in frags {
                    let s = &mut self.subs[idx];
                    if !bit_get(&s.acked, f) {
                        bit_set(&mut s.acked, f);
                        s.n_acked += 1;
                        self.n_acked_frags += 1;
                        if s.mode.resends() && !s.passed {
                            self.unacked_pr_frags -= 1;
                        }
                    }
                }
            }
        }
        // packet window acknowledgement
        if packet_base > PID_MASK {
            return;
        }
        let delta = pid_sub(packet_base, self.base_pid);
        let span = pid_sub(self.next_pid, self.base_pid);
        if delta == 0 || delta > span {
            return;
        }
        for _ in 0..delta {
            let idx = self.pid_map.pop_front().unwrap();
            if self.passed_recent.len() >= 8192 {
                self.passed_recent.pop_front();
            }
            self.passed_recent.push_back((self.base_pid, idx));
            let s = &mut self.subs[idx];
            s.passed = true;
            self.n_unsettled -= 1;
            self.n_passed += 1;
            self.live_sum -= s.len;
            self.outstanding_pkts -= 1;
            self.outstanding_alloc -= alloc_size_of(s.len);
            if s.mode.resends() {
                self.unacked_pr_frags -= (s.nfrag - s.n_acked) as u64;
            }
            self.base_pid = pid_add(self.base_pid, 1);
        }
        if delta >= 2 {
            self.c.inc("window_acks_releasing_2plus");
        }
    }

    // ---- sender observables ----------------------------------------------------------------

    /// After any call on the sender: send_buffer_size() and is_send_pending().
    pub fn check_sender_observables(&mut self, sbs: usize, pending: bool, at: &str) {
        self.c.inc("sbs_checks");
        let upper = self.live_sum;
        let lower = self.live_sum - self.stale_sum;
        if sbs > self.total_submitted_bytes {
            let t = self.total_submitted_bytes;
            self.viol("C20", "sbs-underflow", format!("send_buffer_size() = {} exceeds everything ever submitted ({}) after {}", sbs, t, at));
        } else if sbs < lower || sbs > upper {
            self.viol("C20", "sbs-out-of-bounds", format!("send_buffer_size() = {} outside [{}, {}] after {} (upper = accepted and not passed by an accepted window ack nor provably discarded; lower excludes stale TimeSensitive packets that may already have been discarded)", sbs, lower, upper, at));
        }
        if !pending {
            self.c.inc("not_pending_observations");
            // queue is empty: every unmapped submission was discarded
            let expect = self.live_sum - self.unmapped_sum;
            if self.unmapped_sum != self.stale_sum {
                let (u, s) = (self.unmapped_sum, self.stale_sum);
                self.viol("C20", "queue-empty-with-unsent", format!("is_send_pending() is false after {} but {} bytes of submitted packets were never transmitted and only {} of them are stale TimeSensitive", at, u, s));
            } else if sbs != expect {
                self.viol("C20", "sbs-quiescent-mismatch", format!("is_send_pending() is false after {} and send_buffer_size() = {} but unacknowledged transmitted packets total {}", at, sbs, expect));
            }
            // the send queue is empty: every submission that never reached the wire was discarded
            while self.next_map < self.subs.len() {
                let idx = self.next_map;
                if self.subs[idx].mode.resends() && self.honest_peer && !self.reported_untransmitted {
                    // only a stale TimeSensitive packet may leave the sender without a transmission
                    self.reported_untransmitted = true;
                    let (name, len, chan, t) = (self.subs[idx].mode.name(), self.subs[idx].len, self.subs[idx].chan, self.subs[idx].t_ns / 1_000_000);
                    self.viol("C12", "resendable-packet-dropped-untransmitted", format!("is_send_pending() is false after {} although {} submission #{} ({} bytes, channel {}, submitted at t={} ms) never had a fragment on the wire: the sender dropped a packet it has to retransmit until acknowledged", at, name, idx, len, chan, t));
                }
                let s = &mut self.subs[idx];
                let len = s.len;
                s.discarded = true;
                let was_counted = s.stale_counted;
                s.stale_counted = false;
                self.n_unsettled -= 1;
                self.live_sum -= len;
                self.unmapped_sum -= len;
                if was_counted {
                    self.stale_sum -= len;
                }
                self.c.inc("ts_discarded");
                self.next_map += 1;
            }
            if self.honest_peer && self.unacked_pr_frags != 0 {
                let n = self.unacked_pr_frags;
                self.viol("C12", "quiescent-with-unacked", format!("is_send_pending() is false after {} while {} fragments of Persistent/Reliable packets are neither acknowledged nor passed", at, n));
            }
        }
    }

    pub fn backlog(&self) -> bool {
        self.live_sum != self.stale_sum || self.unacked_pr_frags != 0
    }

    /// every submitted packet was either passed by an accepted window ack or provably discarded
    pub fn all_settled(&self) -> bool {
        self.n_unsettled == 0
    }

    // ---- deliveries -------------------------------------------------------------------------

    pub fn on_delivery(&mut self, data: &[u8], t_ns: u64) {
        self.c.inc("deliveries");
        let idx = if data.len() >= 4 {
            let key = if data.len() >= 8 { u64::from_le_bytes(data[..8].try_into().unwrap()) } else {
                let mut b = [0u8; 8];
                b[..data.len()].copy_from_slice(data);
                u64::from_le_bytes(b)
            };
            let key = if data.len() >= 12 { key } else { key & if data.len() >= 8 { u64::MAX } else { (1u64 << (8 * data.len())) - 1 } };
            match self.by_uid.get(&key) {
                Some(&idx) => {
                    let s = &self.subs[idx];
                    if s.len != data.len() || !payload::matches(s.pay_uid, s.len, 0, data) {
                        let l = s.len;
                        self.viol("C01", "delivered-altered", format!("delivered payload of {} bytes names submission #{} ({} bytes) but differs from it", data.len(), idx, l));
                        return;
                    }
                    idx
                }
                None => {
                    self.viol("C01", "delivered-unknown", format!("delivered payload of {} bytes (head {}) matches no packet submitted in this direction", data.len(), hex(&data[..data.len().min(16)])));
                    return;
                }
            }
        } else {
            // ambiguous class: smallest not-yet-delivered candidate beyond the channel's last delivery
            let mut b = [0u8; 8];
            b[..data.len()].copy_from_slice(data);
            let val = u64::from_le_bytes(b);
            let last = self.last_delivered_idx[self.amb_chan as usize];
            let found = match self.amb.get_mut(&(data.len() as u8, val)) {
                Some(q) => {
                    while let Some(&front) = q.front() {
                        if (front as i64) <= last {
                            q.pop_front(); // can no longer be delivered in order
                        } else {
                            break;
                        }
                    }
                    q.pop_front()
                }
                None => None,
            };
            match found {
                Some(idx) => idx,
                None => {
                    self.viol("C01", "delivered-unknown", format!("delivered {}-byte payload {} has no remaining submitted candidate in order on channel {} (duplicate, reordered or never sent)", data.len(), hex(data), self.amb_chan));
                    return;
                }
            }
        };
        let (chan, mode, prev_delivered, t_sub) = {
            let s = &self.subs[idx];
            (s.chan as usize, s.mode, s.delivered, s.t_ns)
        };
        if prev_delivered > 0 {
            self.viol("C01", "delivered-twice", format!("submission #{} ({}, chan {}) delivered a second time", idx, mode.name(), chan));
        }
        if t_ns < t_sub {
            self.viol("C01", "delivered-before-submitted", format!("submission #{} delivered before it was submitted", idx));
        }
        if (idx as i64) <= self.last_delivered_idx[chan] && prev_delivered == 0 {
            let l = self.last_delivered_idx[chan];
            self.viol("C01", "channel-order", format!("submission #{} delivered on channel {} after submission #{} of the same channel", idx, chan, l));
        }
        // C02 safety: no earlier Reliable packet of this channel may be undelivered
        while let Some(&r) = self.undelivered_reliable[chan].front() {
            if r < idx {
                if self.subs[r].delivered == 0 {
                    self.viol("C02", "reliable-skipped", format!("submission #{} delivered on channel {} while earlier Reliable submission #{} of that channel is undelivered", idx, chan, r));
                }
                self.undelivered_reliable[chan].pop_front();
            } else if r == idx {
                self.undelivered_reliable[chan].pop_front();
            } else {
                break;
            }
        }
        // C05: on an ideal network the global order is the submission order minus TimeSensitive
        if self.ideal {
            if (idx as i64) <= self.last_global_delivered {
                let l = self.last_global_delivered;
                self.viol("C05", "global-order", format!("ideal network: submission #{} delivered after submission #{}", idx, l));
            } else {
                for k in (self.last_global_delivered + 1) as usize..idx {
                    let s = &self.subs[k];
                    if s.mode != Mode::TimeSensitive && s.delivered == 0 {
                        let (m, c) = (s.mode.name(), s.chan);
                        self.viol("C05", "skipped-on-ideal-network", format!("ideal network: submission #{} delivered while earlier {} submission #{} (chan {}) was not", idx, m, k, c));
                        break;
                    } else if s.mode == Mode::TimeSensitive && s.delivered == 0 && s.pid.is_some() && s.n_first_tx == s.nfrag {
                        self.viol("C05", "transmitted-ts-lost-on-ideal-network", format!("ideal network: TimeSensitive submission #{} was fully transmitted but skipped at delivery of #{}", k, idx));
                        break;
                    }
                }
                self.last_global_delivered = idx as i64;
            }
        }
        if (idx as i64) > self.last_delivered_idx[chan] {
            self.last_delivered_idx[chan] = idx as i64;
        }
        let s = &mut self.subs[idx];
        s.delivered += 1;
        s.t_delivered_ns = t_ns;
        self.n_delivered += 1;
        if s.nfrag > 1 {
            self.c.inc("delivered_multifrag");
        }
    }

    // ---- end of scenario --------------------------------------------------------------------

    /// Both sides quiescent on a fair network: the end-state obligations.
    pub fn check_quiescent_end(&mut self) {
        let mut missing_r = 0;
        let mut first_missing = None;
        let mut missing_ideal = 0;
        let mut first_missing_ideal = None;
        for (i, s) in self.subs.iter().enumerate() {
            if s.mode == Mode::Reliable && s.delivered != 1 {
                missing_r += 1;
                if first_missing.is_none() {
                    first_missing = Some((i, s.delivered));
                }
            }
            if self.ideal && s.mode != Mode::TimeSensitive && s.delivered != 1 {
                missing_ideal += 1;
                if first_missing_ideal.is_none() {
                    first_missing_ideal = Some((i, s.mode.name(), s.delivered));
                }
            }
        }
        if let Some((i, d)) = first_missing {
            self.viol("C02", "reliable-not-delivered-at-quiescence", format!("sender reports nothing pending but {} Reliable packets were not delivered exactly once (first: submission #{} delivered {} times)", missing_r, i, d));
        }
        if let Some((i, m, d)) = first_missing_ideal {
            self.viol("C05", "not-delivered-on-ideal-network", format!("ideal network, quiescent: {} non-TimeSensitive packets not delivered exactly once (first: {} submission #{} delivered {} times)", missing_ideal, m, i, d));
        }
    }

    pub fn summary_counts(&mut self) {
        let mut delivered = [0i128; 4];
        let mut lost_then_delivered = 0;
        for s in &self.subs {
            if s.delivered > 0 {
                delivered[match s.mode {
                    Mode::TimeSensitive => 0,
                    Mode::Unreliable => 1,
                    Mode::Persistent => 2,
                    Mode::Reliable => 3,
                }] += 1;
                if s.mode == Mode::Reliable && s.tx.iter().any(|&t| t >= 3) {
                    lost_then_delivered += 1;
                }
            }
        }
        self.c.add("delivered_ts", delivered[0]);
        self.c.add("delivered_u", delivered[1]);
        self.c.add("delivered_p", delivered[2]);
        self.c.add("delivered_r", delivered[3]);
        self.c.add("reliable_sent_3plus_times_then_delivered", lost_then_delivered);
    }

    pub fn delivered_sequence_hash(&self) -> u64 {
        let mut h = 0u64;
        for (i, s) in self.subs.iter().enumerate() {
            if s.delivered > 0 {
                h = mix(h, i as u64 ^ (s.t_delivered_ns << 20));
            }
        }
        h
    }
}
