// C14: the real SendRateComp driven with arbitrary feedback histories, stepped in lock-step with
// an independent evaluation of the RFC 5348 bounds the property states.

use crate::util::*;
use crate::{guarded, ScnOut};
use uflow::verif::{FeedbackData, SendRateComp};

const S: f64 = 1472.0;
const FLOOR: u32 = 23;

fn f_p(p: f64) -> f64 {
    (2.0 * p / 3.0).sqrt() + 12.0 * (3.0 * p / 8.0).sqrt() * p * (1.0 + 32.0 * p * p)
}

/// TCP throughput equation X_Bps = s / (R * f(p)), in bytes per second.
fn t_eq(r: f64, p: f64) -> f64 {
    S / (r * f_p(p))
}

fn pick_dt(rng: &mut Rng) -> u64 {
    match rng.below(10) {
        0 => 0,
        1 => 1,
        2 => rng.range(2, 30),
        3 | 4 => rng.range(30, 300),
        5 => rng.range(300, 3000),
        6 => rng.range(1900, 2100),
        7 => rng.range(3000, 200_000),
        8 => rng.log_range(1, 20_000_000),
        _ => rng.range(5, 100),
    }
}

fn pick_rtt(rng: &mut Rng) -> u64 {
    match rng.below(10) {
        0 => 0,
        1 => 1,
        2 => rng.range(2, 20),
        3 | 4 | 5 => rng.range(20, 400),
        6 => rng.range(400, 5000),
        7 => rng.log_range(1, 1_000_000),
        8 => 1_000_000,
        _ => rng.range(50, 150),
    }
}

fn pick_recv(rng: &mut Rng) -> u32 {
    match rng.below(8) {
        0 => 0,
        1 => u32::MAX,
        2 => rng.range(1, 100) as u32,
        3 => rng.log_range(1, u32::MAX as u64) as u32,
        _ => rng.log_range(500, 5_000_000) as u32,
    }
}

fn pick_loss(rng: &mut Rng, prev: f64) -> f64 {
    match rng.below(8) {
        0 => 0.0,
        1 => 1.0,
        2 => 1e-9,
        3 => prev,
        4 => (prev * (0.5 + rng.f64())).min(1.0),
        5 => 10f64.powf(-9.0 * rng.f64()),
        _ => 10f64.powf(-4.0 * rng.f64()),
    }
}

pub fn run_history(seed: u64, steps: usize, out: &mut ScnOut, verbose: bool) {
    let mut rng = Rng::new(seed);
    let ceiling: u32 = match rng.below(6) {
        0 => 1472,
        1 => u32::MAX,
        2 => rng.range(1472, 10_000) as u32,
        _ => rng.log_range(1472, u32::MAX as u64) as u32,
    };
    // keep loss at zero for a while in some histories so slow start is exercised
    let lossless_prefix = if rng.chance(0.5) { rng.range(0, 20) as usize } else { 0 };
    let feedback_p = *rng.pick(&[0.2, 0.5, 0.9]);

    let mut comp = guarded(11, || SendRateComp::new(ceiling));
    let mut now: u64 = rng.below(1000);
    guarded(8, || comp.notify_frame_sent(now));

    // oracle state
    let mut r_oracle: Option<f64> = None;
    let mut prev_loss = 0.0f64;
    let mut eqn_phase = false;
    let mut feedbacks = 0usize;
    let mut expiries = 0u64;
    let mut viol: Vec<Violation> = Vec::new();
    let mut push = |viol: &mut Vec<Violation>, rule: &str, msg: String| {
        if viol.len() < 8 {
            viol.push(Violation::new("C14", rule, &format!("C14:{}", rule), msg));
        }
    };
    let mut hist: Vec<String> = Vec::new();

    for k in 0..steps {
        now += pick_dt(&mut rng);
        let fb = if rng.chance(feedback_p) {
            let loss = if k < lossless_prefix { 0.0 } else { pick_loss(&mut rng, prev_loss) };
            Some(FeedbackData { rtt_ms: pick_rtt(&mut rng), receive_rate: pick_recv(&mut rng), loss_rate: loss, rate_limited: rng.chance(0.3) })
        } else {
            None
        };
        if rng.chance(0.3) {
            guarded(8, || comp.notify_frame_sent(now));
        }
        let x_old = comp.send_rate();
        let desc = format!("t={} fb={:?}", now, fb.as_ref().map(|f| (f.rtt_ms, f.receive_rate, f.loss_rate, f.rate_limited)));
        if hist.len() < 40 {
            hist.push(desc.clone());
        }
        let fb_copy = fb.as_ref().map(|f| (f.rtt_ms, f.receive_rate, f.loss_rate, f.rate_limited));
        let mut reset_p: Option<f64> = None;
        let res = std::panic::catch_unwind(std::panic::AssertUnwindSafe(|| {
            guarded(8, || comp.step(now, fb, |p| reset_p = Some(p)));
        }));
        crate::alloc::set_tag(crate::alloc::TAG_HARNESS);
        if let Err(e) = res {
            let m = crate::panic_message(&e);
            out.violations.push(Violation::new("C03", "panic", &format!("panic:{}", crate::panic_site(&m)), format!("SendRateComp::step panicked: {} on {} (ceiling {}); history: {}", m, desc, ceiling, hist.join(" ; "))));
            out.counters.inc("histories_cut_short_by_panic");
            break;
        }
        let x_new = comp.send_rate();
        out.counters.inc("srcomp_steps");
        if verbose {
            eprintln!("{} -> X {} -> {} rtt {:?}", desc, x_old, x_new, comp.rtt_s());
        }

        // (1) ceiling, (5) floor
        if x_new > ceiling as f64 {
            push(&mut viol, "above-ceiling", format!("X = {} > max_send_rate {} after {}", x_new, ceiling, desc));
        }
        if x_new < FLOOR as f64 {
            push(&mut viol, "below-floor", format!("X = {} < s/64 = 23 after {} (X was {})", x_new, desc, x_old));
        }

        match fb_copy {
            Some((rtt_ms, _recv, loss, _rl)) => {
                feedbacks += 1;
                let sample = rtt_ms as f64 / 1000.0;
                let r = match r_oracle {
                    None => sample,
                    Some(r) => 0.9 * r + 0.1 * sample,
                };
                r_oracle = Some(r);
                // (6) RTT estimate
                match comp.rtt_s() {
                    Some(got) if (got - r).abs() <= 1e-9 * r.max(1e-9) => {}
                    other => push(&mut viol, "rtt-estimate", format!("rtt_s() = {:?}, expected 0.9/0.1 moving average {} after {}", other, r, desc)),
                }
                let loss_increase = loss > prev_loss;
                if !eqn_phase && loss_increase {
                    // slow-start exit (RFC 5348 6.3.1)
                    eqn_phase = true;
                    out.counters.inc("slow_start_exits");
                    let target = if feedbacks == 1 { (S / 2.0) / r } else { (x_old / 2.0).floor() };
                    let bound = target.max(FLOOR as f64);
                    if x_new > bound + 1.0 {
                        push(&mut viol, "slow-start-exit-rate", format!("X = {} after the first loss report, expected <= max(target, 23) with target {} (X was {}, R {}) after {}", x_new, target, x_old, r, desc));
                    }
                    match reset_p {
                        None => push(&mut viol, "loss-history-not-initialised", format!("first loss report did not initialise the loss history, after {}", desc)),
                        Some(p0) => {
                            let target_u = target.min(u32::MAX as f64).floor();
                            let reachable = r > 0.0 && t_eq(r, 1.0) <= target_u * 0.95 && target_u >= 1.0 && t_eq(r, 1e-15) >= target_u * 1.05;
                            if reachable {
                                out.counters.inc("initial_p_checked");
                                let t = t_eq(r, p0);
                                if !(p0 > 0.0 && p0 <= 1.0) || (t - target_u).abs() > 0.05 * target_u + 2.0 {
                                    push(&mut viol, "initial-loss-rate", format!("loss history initialised with p = {} for which the throughput equation gives {} B/s, target {} B/s (R {}) after {}", p0, t, target_u, r, desc));
                                }
                            } else {
                                out.counters.inc("initial_p_target_unreachable");
                            }
                        }
                    }
                } else if eqn_phase {
                    // (2) throughput equation bound for the reported loss event rate
                    out.counters.inc("eqn_phase_feedbacks");
                    let t = if r > 0.0 && loss > 0.0 { t_eq(r, loss) } else { f64::INFINITY };
                    let bound = t.max(FLOOR as f64);
                    if x_new > bound * (1.0 + 1e-9) + 1.0 {
                        push(&mut viol, "above-throughput-equation", format!("X = {} exceeds max(T(R={}, p={}) = {}, 23) after {}", x_new, r, loss, t, desc));
                    }
                } else {
                    // (3) slow start: at most doubles, or the initial window per RTT
                    out.counters.inc("slow_start_feedbacks");
                    let init = if r > 0.0 { 4380.0 / r } else { f64::INFINITY };
                    let bound = (2.0 * x_old).max(init);
                    if x_new > bound + 1.0 {
                        push(&mut viol, "slow-start-growth", format!("X went from {} to {} on one feedback; bound max(2X, 4380/R) = {} (R {}) after {}", x_old, x_new, bound, r, desc));
                    }
                }
                prev_loss = loss;
            }
            None => {
                // (4) without feedback the rate never increases, and an expiry at most halves it
                if x_new > x_old {
                    push(&mut viol, "increase-without-feedback", format!("X went from {} to {} in a step without feedback at {}", x_old, x_new, desc));
                }
                if x_new < x_old {
                    expiries += 1;
                    if x_new + 1.0 < (x_old / 2.0).floor().max(FLOOR as f64).min(x_old) {
                        push(&mut viol, "more-than-halved", format!("X went from {} to {} on one no-feedback expiry at {}", x_old, x_new, desc));
                    }
                }
            }
        }
        if !viol.is_empty() {
            break;
        }
    }
    out.evals += 1;
    out.counters.add("nofeedback_reductions", expiries as i128);
    let nontrivial = eqn_phase && expiries >= 1;
    if nontrivial {
        out.nontrivial += 1;
        out.sigs.push(mix(mix(ceiling as u64, feedbacks as u64), mix(expiries, comp.send_rate().to_bits())));
    }
    for v in viol.iter_mut() {
        v.msg = format!("{} | ceiling {} | history: {}", v.msg, ceiling, hist.join(" ; "));
    }
    out.violations.extend(viol);
    if seed % 1013 == 0 || out.samples.is_empty() && seed % 97 == 0 {
        out.samples.push(J::obj().with("ceiling", J::Int(ceiling as i128)).with("steps", J::u(steps)).with("feedbacks", J::u(feedbacks)).with("nofeedback_reductions", J::Int(expiries as i128)).with("first_steps", J::Arr(hist.iter().take(8).map(|s| J::s(s)).collect())));
    }
}

pub fn run_batch(scn_seed: u64, params: &crate::Params, out: &mut ScnOut) {
    let n = params.u64("batch", 200);
    let steps = params.u64("steps", 60) as usize;
    let verbose = params.flag("verbose");
    for k in 0..n {
        run_history(mix(scn_seed, k), steps, out, verbose);
    }
}
