// fidelity: the same scripted Client / Server session twice on the virtual clock — once over the
// in-process virtual network (ideal: every datagram is in the destination socket as soon as the
// sender's call returns) and once over REAL UDP sockets on 127.0.0.1 (the code path a deployment
// uses: std::net::UdpSocket, non-blocking recv loops, connected client sockets, UdpFrameSink).
//
// The monitors (event automaton per connection, payload identity, per-connection order of Reliable
// packets, nothing lost on the loss-free path) are applied to BOTH runs: a violation in the
// real-socket run is a violation like any other. The comparison of the two event streams validates
// the virtual socket model that every epsim verdict rests on; a mismatch that survives the retries
// is reported as an inconclusive note, never as a violation (loopback delivery is synchronous on
// Linux in practice, but nothing guarantees it).

use crate::payload;
use crate::util::*;
use crate::{alloc, guarded, ScnOut};
use std::collections::HashMap;
use std::net::SocketAddr;
use uflow::verif as uv;

const MS: u64 = 1_000_000;

#[derive(Clone, Debug, PartialEq)]
enum FEv {
    Connect,
    Disconnect,
    Error(&'static str),
    Receive(u64, usize),
}

struct Plan {
    n_clients: usize,
    scfg: uflow::EndpointConfig,
    ccfg: Vec<uflow::EndpointConfig>,
    tick_ns: u64,
    ticks: u64,
    // (tick, who: None = server to client k / Some(k) = client k, k, len, channel, mode)
    sends: Vec<(u64, bool, usize, usize, usize, u8)>,
    // (tick, from server?, k, now?)
    disconnects: Vec<(u64, bool, usize, bool)>,
    seed: u64,
}

fn mode_of(m: u8) -> uflow::SendMode {
    match m {
        0 => uflow::SendMode::TimeSensitive,
        1 => uflow::SendMode::Unreliable,
        2 => uflow::SendMode::Persistent,
        _ => uflow::SendMode::Reliable,
    }
}

fn plan(seed: u64) -> Plan {
    let mut rng = Rng::new(seed);
    let n_clients = rng.range(1, 3) as usize;
    let mk = |rng: &mut Rng| uflow::EndpointConfig {
        max_send_rate: *rng.pick(&[200_000usize, 2_000_000]),
        max_receive_rate: *rng.pick(&[200_000usize, 2_000_000]),
        max_packet_size: 20_000,
        max_receive_alloc: *rng.pick(&[100_000usize, 1_000_000]),
        keepalive: true,
        keepalive_interval_ms: 2000,
        active_timeout_ms: 20_000,
    };
    let scfg = mk(&mut rng);
    let ccfg: Vec<_> = (0..n_clients).map(|_| mk(&mut rng)).collect();
    let tick_ns = *rng.pick(&[2u64, 5, 10]) * MS;
    let ticks = rng.range(300, 900);
    let mut sends = Vec::new();
    let n_sends = rng.range(20, 250);
    for _ in 0..n_sends {
        let t = rng.range(5, ticks * 2 / 3);
        let k = rng.below(n_clients as u64) as usize;
        let len = match rng.below(4) {
            0 => rng.range(12, 100),
            1 => rng.range(100, 1448),
            2 => rng.range(1440, 3000),
            _ => rng.range(3000, 12_000),
        } as usize;
        sends.push((t, rng.chance(0.5), k, len, rng.below(64) as usize, rng.range(1, 3) as u8));
    }
    sends.sort_by_key(|s| s.0);
    let mut disconnects = Vec::new();
    for k in 0..n_clients {
        if rng.chance(0.8) {
            disconnects.push((rng.range(ticks * 2 / 3, ticks - 20), rng.chance(0.5), k, rng.chance(0.3)));
        }
    }
    Plan { n_clients, scfg, ccfg, tick_ns, ticks, sends, disconnects, seed }
}

struct RunOut {
    server: Vec<(usize, FEv)>,  // (client index, event)
    clients: Vec<Vec<FEv>>,
    sent_c2s: Vec<Vec<(u64, usize, u8)>>, // per client: (hash, len, mode) in submission order
    sent_s2c: Vec<Vec<(u64, usize, u8)>>,
    // send_buffer_size() of each direction's sender at the end (None: connection gone)
    left_c2s: Vec<Option<usize>>,
    left_s2c: Vec<Option<usize>>,
    ok: bool,
    note: String,
}

fn pump_virtual() {
    // ideal network: whatever was sent is in the destination socket at once
    for d in uv::net::drain_wire() {
        uv::net::deliver(d.src, d.dst, &d.data);
    }
}

fn run_once(p: &Plan, real: bool, settle_us: u64) -> RunOut {
    let mut out = RunOut { server: Vec::new(), clients: vec![Vec::new(); p.n_clients], sent_c2s: vec![Vec::new(); p.n_clients], sent_s2c: vec![Vec::new(); p.n_clients], left_c2s: vec![None; p.n_clients], left_s2c: vec![None; p.n_clients], ok: false, note: String::new() };
    uv::time::set_virtual_ns(Some(0));
    uv::rng::set_seed(Some(mix(p.seed, 0xf1de)));
    uv::rng::clear_forced();
    if real {
        uv::net::disable();
    } else {
        uv::net::enable();
    }
    let settle = |real: bool| {
        if real && settle_us > 0 {
            std::thread::sleep(std::time::Duration::from_micros(settle_us));
        }
    };
    let scfg = uflow::server::Config { max_total_connections: 8, max_active_connections: 8, enable_handshake_errors: true, endpoint_config: p.scfg.clone() };
    let bind_addr: SocketAddr = if real { "127.0.0.1:0".parse().unwrap() } else { "10.9.0.1:7000".parse().unwrap() };
    let mut server = match guarded(10, || uflow::server::Server::bind(bind_addr, scfg)) {
        Ok(s) => s,
        Err(e) => {
            alloc::set_tag(alloc::TAG_HARNESS);
            out.note = format!("Server::bind failed: {}", e);
            return out;
        }
    };
    alloc::set_tag(alloc::TAG_HARNESS);
    let saddr = server.address();
    let mut clients = Vec::new();
    let mut addr_of: HashMap<SocketAddr, usize> = HashMap::new();
    for k in 0..p.n_clients {
        let cfg = uflow::client::Config { endpoint_config: p.ccfg[k].clone() };
        match guarded(10, || uflow::client::Client::connect(saddr, cfg)) {
            Ok(c) => {
                alloc::set_tag(alloc::TAG_HARNESS);
                addr_of.insert(c.local_address(), k);
                clients.push(Some(c));
            }
            Err(e) => {
                alloc::set_tag(alloc::TAG_HARNESS);
                out.note = format!("Client::connect failed: {}", e);
                return out;
            }
        }
        if !real {
            pump_virtual();
        }
        settle(real);
    }
    let mut uid = mix(p.seed, 77) | 1;
    let mut si = 0usize;
    for tick in 0..p.ticks {
        let now = tick * p.tick_ns;
        uv::time::set_virtual_ns(Some(now));
        // server step
        let evs: Vec<uflow::server::Event> = guarded(10, || server.step().collect());
        alloc::set_tag(alloc::TAG_HARNESS);
        if !real {
            pump_virtual();
        }
        settle(real);
        for e in evs {
            let (a, ev) = match e {
                uflow::server::Event::Connect(a) => (a, FEv::Connect),
                uflow::server::Event::Disconnect(a) => (a, FEv::Disconnect),
                uflow::server::Event::Receive(a, d) => (a, FEv::Receive(hash_bytes(7, &d), d.len())),
                uflow::server::Event::Error(a, t) => (
                    a,
                    FEv::Error(match t {
                        uflow::server::ErrorType::Timeout => "timeout",
                        uflow::server::ErrorType::Version => "version",
                        uflow::server::ErrorType::Config => "config",
                        uflow::server::ErrorType::ServerFull => "serverfull",
                    }),
                ),
            };
            let k = addr_of.get(&a).copied().unwrap_or(usize::MAX);
            out.server.push((k, ev));
        }
        // client steps
        for k in 0..p.n_clients {
            if let Some(c) = clients[k].as_mut() {
                let evs: Vec<uflow::client::Event> = guarded(10, || c.step().collect());
                alloc::set_tag(alloc::TAG_HARNESS);
                if !real {
                    pump_virtual();
                }
                settle(real);
                for e in evs {
                    out.clients[k].push(match e {
                        uflow::client::Event::Connect => FEv::Connect,
                        uflow::client::Event::Disconnect => FEv::Disconnect,
                        uflow::client::Event::Receive(d) => FEv::Receive(hash_bytes(7, &d), d.len()),
                        uflow::client::Event::Error(t) => FEv::Error(match t {
                            uflow::client::ErrorType::Timeout => "timeout",
                            uflow::client::ErrorType::Version => "version",
                            uflow::client::ErrorType::Config => "config",
                            uflow::client::ErrorType::ServerFull => "serverfull",
                        }),
                    });
                }
            }
        }
        // application actions of this tick
        while si < p.sends.len() && p.sends[si].0 <= tick {
            let (_, from_server, k, len, chan, mode) = p.sends[si];
            si += 1;
            uid = uid.wrapping_add(2);
            let data = payload::make(uid, len.max(12));
            let rec = (hash_bytes(7, &data), data.len(), mode);
            if from_server {
                let a = match clients[k].as_ref() {
                    Some(c) => c.local_address(),
                    None => continue,
                };
                if let Some(rc) = server.client(&a).cloned() {
                    if rc.borrow().is_active() {
                        guarded(3, || rc.borrow_mut().send(data, chan, mode_of(mode)));
                        alloc::set_tag(alloc::TAG_HARNESS);
                        out.sent_s2c[k].push(rec);
                    }
                }
            } else if let Some(c) = clients[k].as_mut() {
                if c.is_active() {
                    guarded(3, || c.send(data, chan, mode_of(mode)));
                    alloc::set_tag(alloc::TAG_HARNESS);
                    out.sent_c2s[k].push(rec);
                }
            }
        }
        for &(t, from_server, k, now_flag) in p.disconnects.iter() {
            if t != tick {
                continue;
            }
            if from_server {
                if let Some(c) = clients[k].as_ref() {
                    let a = c.local_address();
                    if let Some(rc) = server.client(&a).cloned() {
                        guarded(11, || if now_flag { rc.borrow_mut().disconnect_now() } else { rc.borrow_mut().disconnect() });
                        alloc::set_tag(alloc::TAG_HARNESS);
                    }
                }
            } else if let Some(c) = clients[k].as_mut() {
                guarded(11, || if now_flag { c.disconnect_now() } else { c.disconnect() });
                alloc::set_tag(alloc::TAG_HARNESS);
            }
        }
    }
    for k in 0..p.n_clients {
        if let Some(c) = clients[k].as_ref() {
            if c.is_active() {
                out.left_c2s[k] = Some(c.send_buffer_size());
            }
            if let Some(rc) = server.client(&c.local_address()) {
                if rc.borrow().is_active() {
                    out.left_s2c[k] = Some(rc.borrow().send_buffer_size());
                }
            }
        }
    }
    guarded(11, || {
        drop(clients);
        drop(server);
    });
    alloc::set_tag(alloc::TAG_HARNESS);
    if !real {
        uv::net::drain_wire();
    }
    out.ok = true;
    out
}

/// The monitors, applied to one run.
fn judge(p: &Plan, r: &RunOut, which: &str, viol: &mut Vec<Violation>, c: &mut Counters) {
    // C08 automaton per connection
    let check_stream = |name: String, evs: &Vec<FEv>, viol: &mut Vec<Violation>| {
        let mut state = 0; // 0 none, 1 up, 2 ended
        for (i, e) in evs.iter().enumerate() {
            let bad = match (state, e) {
                (0, FEv::Connect) => {
                    state = 1;
                    false
                }
                (0, FEv::Error(_)) => {
                    state = 2;
                    false
                }
                (1, FEv::Receive(..)) => false,
                (1, FEv::Disconnect) | (1, FEv::Error(_)) => {
                    state = 2;
                    false
                }
                _ => true,
            };
            if bad {
                viol.push(Violation::new("C08", "real-socket-event-stream", &format!("C08:{}-event-stream-malformed", which), format!("[{} run] {}: event #{} {:?} in state {} (0 none / 1 connected / 2 ended); stream {:?}", which, name, i, e, state, evs.iter().take(12).collect::<Vec<_>>())));
                break;
            }
        }
    };
    for k in 0..p.n_clients {
        check_stream(format!("client {}", k), &r.clients[k], viol);
        let sv: Vec<FEv> = r.server.iter().filter(|(x, _)| *x == k).map(|(_, e)| e.clone()).collect();
        check_stream(format!("server's view of client {}", k), &sv, viol);
        c.add("fidelity_events_checked", (r.clients[k].len() + sv.len()) as i128);
        // C01 / C05: on the loss-free path everything submitted on an established connection and not
        // TimeSensitive arrives exactly once, byte-identical (hash), in submission order — unless the
        // connection was ended by disconnect_now() or by the peer first
        for (dir, sent, got, left) in [("client->server", &r.sent_c2s[k], &sv, r.left_c2s[k]), ("server->client", &r.sent_s2c[k], &r.clients[k], r.left_s2c[k])] {
            let recv: Vec<(u64, usize)> = got.iter().filter_map(|e| if let FEv::Receive(h, l) = e { Some((*h, *l)) } else { None }).collect();
            let sent_set: Vec<(u64, usize)> = sent.iter().map(|s| (s.0, s.1)).collect();
            let mut pos = 0usize;
            for (h, l) in recv.iter() {
                match sent_set[pos..].iter().position(|x| x == &(*h, *l)) {
                    Some(off) => pos += off + 1,
                    None => {
                        let twice = sent_set[..pos].contains(&(*h, *l));
                        viol.push(Violation::new("C01", "real-socket-delivery", &format!("C01:{}-delivery-not-a-subsequence", which), format!("[{} run] {} of client {}: a {}-byte packet was delivered {} ({} submitted, {} delivered)", which, dir, k, l, if twice { "twice or out of order" } else { "that was never submitted" }, sent_set.len(), recv.len())));
                        break;
                    }
                }
            }
            c.add("fidelity_deliveries_checked", recv.len() as i128);
            // a sender that reports an empty send buffer at the end has had everything acknowledged:
            // on the loss-free path all of it was delivered
            if left == Some(0) {
                c.inc("fidelity_drained_directions_checked");
                if recv.len() != sent_set.len() {
                    viol.push(Violation::new("C05", "real-socket-loss-free", &format!("C05:{}-not-delivered-on-loss-free-path", which), format!("[{} run] {} of client {}: {} packets submitted on a loss-free path, the sender's send_buffer_size() is 0 at the end, but only {} were delivered", which, dir, k, sent_set.len(), recv.len())));
                }
            }
        }
    }
}

pub fn run(seed: u64, out: &mut ScnOut) {
    let p = plan(seed);
    let heap0 = alloc::live_bytes(alloc::TAG_UFLOW);
    let v = run_once(&p, false, 0);
    out.evals += 1;
    if !v.ok {
        out.inconclusive.push(format!("fidelity: virtual run did not start: {}", v.note));
        return;
    }
    let mut viol = Vec::new();
    judge(&p, &v, "virtual", &mut viol, &mut out.counters);
    let mut equal = false;
    let mut last_note = String::new();
    for (attempt, settle) in [0u64, 200, 2000].iter().enumerate() {
        let r = run_once(&p, true, *settle);
        uv::net::enable();
        if !r.ok {
            last_note = r.note.clone();
            out.counters.inc("fidelity_real_run_not_started");
            break;
        }
        out.counters.inc("fidelity_real_socket_runs");
        if attempt == 0 {
            judge(&p, &r, "real-socket", &mut viol, &mut out.counters);
        }
        if r.server == v.server && r.clients == v.clients {
            equal = true;
            break;
        }
        let first_diff = (0..p.n_clients).find(|&k| r.clients[k] != v.clients[k]).map(|k| format!("client {} stream: virtual {} events, real {} events", k, v.clients[k].len(), r.clients[k].len())).unwrap_or_else(|| format!("server stream: virtual {} events, real {} events", v.server.len(), r.server.len()));
        last_note = format!("attempt {} (settle {} us): {}", attempt, settle, first_diff);
        out.counters.inc("fidelity_retries");
    }
    if equal {
        out.counters.inc("fidelity_sessions_equal");
        out.nontrivial += 1;
        let n_ev: usize = v.clients.iter().map(|c| c.len()).sum::<usize>() + v.server.len();
        out.sigs.push(mix(seed, n_ev as u64));
        out.counters.add("fidelity_events_compared", n_ev as i128);
    } else {
        out.counters.inc("fidelity_sessions_differ");
        out.inconclusive.push(format!("fidelity seed {}: event streams of the virtual-network run and the real-socket run differ after retries ({}); a difference in the socket model or asynchronous loopback delivery, not a verdict", seed, last_note));
    }
    if crate::checkalloc_active() {
        let live = alloc::live_bytes(alloc::TAG_UFLOW) - heap0;
        if live != 0 {
            viol.push(Violation::new("C19", "leak-on-teardown", "C19:leak-on-teardown:endpoints-real-socket", format!("{} bytes allocated inside calls into uflow are still live after the endpoints of a virtual and a real-socket session were dropped", live)));
        }
    }
    out.violations.extend(viol);
}
