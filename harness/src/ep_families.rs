// Scenario families and history oracles over epsim (real Client/Server objects).

use crate::epsim::*;
use crate::util::*;
use crate::wire::*;
use crate::{Params, ScnOut};
use std::collections::HashMap;
use std::net::SocketAddr;

fn ep_cfg(rng: &mut Rng) -> uflow::EndpointConfig {
    uflow::EndpointConfig {
        max_send_rate: *rng.pick(&[100_000usize, 2_000_000, 10_000_000]),
        max_receive_rate: *rng.pick(&[100_000usize, 2_000_000, 10_000_000]),
        max_packet_size: *rng.pick(&[2_000usize, 20_000, 100_000]),
        max_receive_alloc: *rng.pick(&[100_000usize, 1_000_000]),
        keepalive: true,
        keepalive_interval_ms: *rng.pick(&[2000u64, 5000]),
        active_timeout_ms: *rng.pick(&[5000u64, 10_000, 20_000]),
    }
}

fn cadence(rng: &mut Rng) -> (u64, u64) {
    match rng.below(5) {
        0 => (MS, MS),
        1 => (10 * MS, 10 * MS),
        2 => (30 * MS, 30 * MS),
        3 => (5 * MS, 80 * MS),
        _ => (100 * MS, 100 * MS),
    }
}

fn faulty_net(rng: &mut Rng, fault_ns: u64, harsh: bool) -> NetCfg {
    let mut phases = Vec::new();
    let n = rng.range(1, 3);
    let mut t = 0;
    for k in 0..n {
        t += if k == n - 1 { fault_ns.saturating_sub(t).max(MS) } else { rng.range(fault_ns / 8, fault_ns / 2 + 1) };
        phases.push(NetPhase {
            until_ns: t,
            loss: *rng.pick(if harsh { &[0.0, 0.1, 0.4, 0.7][..] } else { &[0.0, 0.02, 0.1, 0.3][..] }),
            dup: *rng.pick(&[0.0, 0.0, 0.1, 0.4]),
            delay_p: *rng.pick(&[0.0, 0.1, 0.5]),
            delay_max_ms: rng.log_range(1, 3000),
            blackout_to_server: harsh && rng.chance(0.1),
            blackout_to_clients: harsh && rng.chance(0.1),
        });
    }
    NetCfg { latency_ms: *rng.pick(&[0u64, 1, 10, 50, 150]), phases, drop_rules: Vec::new(), handshake_faults_only: false, error_delay_ns: None }
}

/// C07 ("the random nonce the server sent it"): the nonces a server hands out must not follow from
/// one another. The sequence of distinct server nonces of the session (in the order they first
/// appeared in a SYN-ACK) is run past the predictors an observer of two earlier handshakes would
/// try: same again, +1, the same step again (arithmetic), the same xor again, a bit rotation.
/// Two hits in one session are reported (one hit by chance: < 2^-28 per session; two: < 2^-56).
fn check_server_nonces_unpredictable(w: &mut World) {
    let srv = w.server.addr;
    let mut seen: Vec<(SocketAddr, u32)> = Vec::new();
    let mut seq: Vec<u32> = Vec::new();
    for r in w.wire.iter() {
        if r.src == srv && !r.injected {
            if let Some(RFrame::SynAck { nonce, .. }) = r.frame {
                if !seen.contains(&(r.dst, nonce)) {
                    seen.push((r.dst, nonce));
                    seq.push(nonce);
                }
            }
        }
    }
    if seq.len() < 4 {
        return;
    }
    w.c.inc("c07_sessions_with_4_or_more_server_nonces");
    w.c.add("c07_server_nonces_tested_for_predictability", seq.len() as i128);
    let mut hits: Vec<String> = Vec::new();
    for k in 2..seq.len() {
        let (a, b, c) = (seq[k - 2], seq[k - 1], seq[k]);
        let guesses = [("the previous nonce again", b), ("the previous nonce + 1", b.wrapping_add(1)), ("the previous nonce - 1", b.wrapping_sub(1)), ("the previous step again", b.wrapping_add(b.wrapping_sub(a))), ("the nonce before the previous one", a), ("the previous nonce rotated by one bit", b.rotate_left(1)), ("the previous nonce rotated by one bit", b.rotate_right(1))];
        if let Some(g) = guesses.iter().find(|g| g.1 == c) {
            hits.push(format!("nonce #{} = {:#010x} is {} (#{} = {:#010x}, #{} = {:#010x})", k, c, g.0, k - 2, a, k - 1, b));
        }
    }
    if hits.len() >= 2 {
        w.viol("C07", "server-nonces-predictable", format!("{} of the {} nonces this server handed out follow from the two before them: {}; whoever has seen two handshakes can answer a SYN-ACK it never received", hits.len(), seq.len(), hits[..2].join("; ")));
    }
}

/// C07 ("stale, duplicated or forged handshake frames never ... reset ... a connection"): a client
/// object that has reported Connect never reports a handshake error (version / configuration /
/// server full) afterwards — those answer a SYN, and its SYN was answered with the SYN-ACK it
/// connected on; a refusal of an earlier copy of that SYN that arrives late is stale.
fn check_no_handshake_error_after_connect(w: &mut World) {
    let mut first: Option<String> = None;
    for (i, c) in w.clients.iter().enumerate() {
        let tc = match c.events.iter().position(|e| e.ev == Ev::Connect) {
            Some(k) => k,
            None => continue,
        };
        w.c.inc("c07_connected_client_objects_watched_for_handshake_errors");
        if let Some(e) = c.events[tc..].iter().find(|e| matches!(e.ev, Ev::Error(k) if k != "timeout")) {
            if first.is_none() {
                first = Some(format!("client object {} ({}) reported Connect at t={} ms and then {:?} at t={} ms: a handshake error ended an established connection (the server {} the connection at that moment)", i, c.addr, c.events[tc].t_ns / MS, e.ev, e.t_ns / MS, if w.server.events.iter().any(|(a, x)| *a == c.addr && x.ev == Ev::Connect && x.t_ns <= e.t_ns) { "had reported" } else { "had not yet reported" }));
            }
        }
    }
    if let Some(m) = first {
        w.viol("C07", "handshake-error-on-established-client", m);
    }
}

fn world_out(out: &mut ScnOut, w: &mut World, nontrivial: bool, sig_extra: u64, sample: Option<J>) {
    check_server_nonces_unpredictable(w);
    check_no_handshake_error_after_connect(w);
    out.evals += 1;
    if nontrivial {
        out.nontrivial += 1;
        let mut h = sig_extra;
        for (k, v) in &w.c.items {
            h = mix(h, hash_str(k) ^ *v as u64);
        }
        for (a, e) in &w.server.events {
            h = mix(h, hash_str(&format!("{}{:?}", a, e.ev)) ^ e.t_ns);
        }
        out.sigs.push(h);
    }
    if w.panicked {
        out.counters.inc("scenarios_cut_short_by_panic");
    }
    for (k, v) in &w.c.items {
        if k.starts_with("max_") {
            out.counters.max(k, *v);
        } else {
            out.counters.add(k, *v);
        }
    }
    if let Some(s) = sample {
        if out.samples.len() < 2 {
            out.samples.push(s);
        }
    }
    out.violations.extend(std::mem::take(&mut w.violations));
}

/// Endpoint-level part of C01: everything an application is handed was submitted by the peer on
/// the same address pair, and is handed over at most once.
fn check_payloads(w: &mut World) {
    use std::collections::HashSet;
    // what each side submitted, by address
    let mut by_client: HashMap<SocketAddr, HashSet<(u64, usize)>> = HashMap::new();
    for c in w.clients.iter() {
        let set = by_client.entry(c.addr).or_default();
        for e in c.events.iter() {
            if let Ev::AppSend(h, l, _) = e.ev {
                set.insert((h, l));
            }
        }
    }
    let mut by_server: HashMap<SocketAddr, HashSet<(u64, usize)>> = HashMap::new();
    for (a, e) in w.server.events.iter() {
        if let Ev::AppSend(h, l, _) = e.ev {
            by_server.entry(*a).or_default().insert((h, l));
        }
    }
    let mut ts_before_connect: Vec<(SocketAddr, u64, usize, u64)> = Vec::new();
    let mut seen: HashSet<(SocketAddr, u64)> = HashSet::new();
    // zero-length packets all look alike: no more of them delivered than submitted
    let mut empty_got: HashMap<SocketAddr, usize> = HashMap::new();
    let sev: Vec<(SocketAddr, EvRec)> = w.server.events.clone();
    // which client object submitted a payload (payloads are unique per world)
    let mut submitter: HashMap<(SocketAddr, u64, usize), usize> = HashMap::new();
    for (i, c) in w.clients.iter().enumerate() {
        for e in c.events.iter() {
            if let Ev::AppSend(h, l, _) = e.ev {
                submitter.entry((c.addr, h, l)).or_insert(i);
            }
        }
    }
    for (a, e) in sev.iter() {
        if let Ev::Receive(h, l) = e.ev {
            w.c.inc("ep_receives_checked");
            // Data frames carry no connection identity. A frame of an EARLIER connection of the same
            // address pair that the network delays until a later connection is up is taken for a
            // frame of the later one if its id falls into the new receive window, i.e. if the two
            // client nonces (= initial sequence numbers) lie within a window of each other. With
            // random nonces that has probability ~2^-19 per reconnect; the harness forces adjacent
            // nonces (0, 2^32-1, ...) to exercise wrap-around, which makes it observable. Recorded
            // finding with its own signature; anything else delivered twice / unknown is reported.
            if l > 0 {
                if let Some(&x) = submitter.get(&(*a, h, l)) {
                    let receiving = w.clients.iter().enumerate().filter(|(_, c)| c.addr == *a && c.created_ns <= e.t_ns).map(|(i, c)| (c.created_ns, i)).max().map(|(_, i)| i);
                    if let Some(y) = receiving {
                        if y != x && w.clients[x].created_ns < w.clients[y].created_ns {
                            let near = match (w.clients[x].syn_nonce, w.clients[y].syn_nonce) {
                                (Some(nx), Some(ny)) => nx.wrapping_sub(ny).min(ny.wrapping_sub(nx)) <= 2 * 8192,
                                _ => false,
                            };
                            let sent_by_x_before_y = w.wire.iter().any(|r| r.src == *a && r.t_ns < w.clients[y].created_ns && matches!(r.frame, Some(RFrame::Data { .. })));
                            if near && sent_by_x_before_y {
                                w.viol("C01", "ep-delivered-frame-of-earlier-connection", format!("server handed the application of the connection with client object {} (created t={} ms, nonce {:?}) a {}-byte packet at t={} ms that client object {} of an earlier connection from the same address {} (nonce {:?}) had submitted: a delayed data frame of the earlier connection was accepted by the later one, whose initial sequence number lies within a window of the earlier one's", y, w.clients[y].created_ns / MS, w.clients[y].syn_nonce, l, e.t_ns / MS, x, a, w.clients[x].syn_nonce));
                                seen.insert((*a, h));
                                continue;
                            }
                        }
                    }
                }
            }
            if !by_client.get(a).map_or(false, |s| s.contains(&(h, l))) {
                w.viol("C01", "ep-delivered-unknown", format!("server handed the application a {}-byte packet from {} at t={} ms that no client at that address submitted", l, a, e.t_ns / MS));
            } else if l == 0 {
                *empty_got.entry(*a).or_default() += 1;
            } else if !seen.insert((*a, h)) {
                w.viol("C01", "ep-delivered-twice", format!("server handed the application the same {}-byte packet from {} a second time at t={} ms", l, a, e.t_ns / MS));
            }
        }
    }
    // C12 at endpoint level: a TimeSensitive packet handed to Client::send() while the client is
    // still connecting cannot begin transmission before a later step() has run (the one that
    // completes the handshake): it must never reach the server application
    for c in w.clients.iter() {
        let conn = c.events.iter().find(|e| e.ev == Ev::Connect).map(|e| (e.t_ns, e.step_no));
        for e in c.events.iter() {
            if let Ev::AppSend(h, l, 0) = e.ev {
                let before_connect = conn.map_or(true, |cn| (e.t_ns, e.step_no) < cn);
                if before_connect && l > 0 {
                    ts_before_connect.push((c.addr, h, l, e.t_ns));
                }
            }
        }
    }
    for (a, h, l, t) in ts_before_connect.iter() {
        w.c.inc("c12_ts_sends_before_connect");
        if sev.iter().any(|(x, e)| x == a && e.ev == Ev::Receive(*h, *l)) {
            w.viol("C12", "ts-queued-before-connect-delivered", format!("a {}-byte TimeSensitive packet handed to Client::send() at t={} ms, before the client at {} was connected, was delivered to the server application: its transmission cannot have begun before a later step()", l, t / MS, a));
            break;
        }
    }
    let mut empties: Vec<(SocketAddr, usize)> = empty_got.into_iter().collect();
    empties.sort();
    for (a, n) in empties {
        let sent: usize = w.clients.iter().filter(|c| c.addr == a).map(|c| c.events.iter().filter(|e| matches!(e.ev, Ev::AppSend(_, 0, _))).count()).sum();
        if n > sent {
            w.viol("C01", "ep-delivered-twice", format!("server handed the application {} zero-length packets from {} but only {} were submitted", n, a, sent));
        }
    }
    for i in 0..w.clients.len() {
        let addr = w.clients[i].addr;
        let evs = w.clients[i].events.clone();
        let mut mine: HashSet<u64> = HashSet::new();
        let mut my_empties = 0usize;
        for e in evs.iter() {
            if let Ev::Receive(h, l) = e.ev {
                w.c.inc("ep_receives_checked");
                if !by_server.get(&addr).map_or(false, |s| s.contains(&(h, l))) {
                    w.viol("C01", "ep-delivered-unknown", format!("client {} ({}) was handed a {}-byte packet at t={} ms that the server never submitted for that address", i, addr, l, e.t_ns / MS));
                } else if l == 0 {
                    my_empties += 1;
                } else if !mine.insert(h) {
                    w.viol("C01", "ep-delivered-twice", format!("client {} ({}) was handed the same {}-byte packet a second time at t={} ms", i, addr, l, e.t_ns / MS));
                }
            }
        }
        let sent = w.server.events.iter().filter(|(a, e)| *a == addr && matches!(e.ev, Ev::AppSend(_, 0, _))).count();
        if my_empties > sent {
            w.viol("C01", "ep-delivered-twice", format!("client {} ({}) was handed {} zero-length packets but only {} were submitted for it", i, addr, my_empties, sent));
        }
    }
}

fn history_sample(w: &World, note: &str) -> J {
    let mut evs = Vec::new();
    for (a, e) in w.server.events.iter().take(14) {
        evs.push(J::s(&format!("t={}ms server {} {:?}", e.t_ns / MS, a, e.ev)));
    }
    for (i, c) in w.clients.iter().enumerate().take(2) {
        for e in c.events.iter().take(8) {
            evs.push(J::s(&format!("t={}ms client{} {:?}", e.t_ns / MS, i, e.ev)));
        }
    }
    J::obj().with("note", J::s(note)).with("clients", J::u(w.clients.len())).with("latency_ms", J::Int(w.net.latency_ms as i128)).with("phases", J::u(w.net.phases.len())).with("history_head", J::Arr(evs))
}

// =============================================================================================
// C08 / C09: lifecycle

struct Instance {
    client_idx: usize,
    addr: SocketAddr,
}

/// C09 oracle over one client object and the server's view of its address, for the connection
/// instance that this client object took part in.
fn check_disconnect(w: &mut World, ci: usize, t_end_ns: u64) -> bool {
    let addr = w.clients[ci].addr;
    let created = w.clients[ci].created_ns;
    let cev: Vec<EvRec> = w.clients[ci].events.clone();
    // the server-side events of the connection instance this client object belongs to: those at or
    // after the client's creation, up to the next Connect after a terminal event
    let mut sev: Vec<EvRec> = Vec::new();
    {
        let mut started = false;
        let mut ended = false;
        for (a, e) in w.server.events.iter() {
            if *a != addr || e.t_ns < created {
                continue;
            }
            if e.ev == Ev::Connect {
                if started {
                    break;
                }
                // a connection the server reports after this client object was dropped belongs to
                // a later object at the same address (which may even reuse the SYN nonce)
                if e.t_ns > w.clients[ci].dropped_ns.unwrap_or(u64::MAX) {
                    break;
                }
                // ... and so does one reported after this client object had already ended
                let c_end = cev.iter().find(|x| matches!(x.ev, Ev::Disconnect | Ev::Error(_))).map(|x| x.t_ns);
                if c_end.map_or(false, |t| e.t_ns > t + SEC) {
                    break;
                }
                // the server-side connection belongs to this client object iff the SYN-ACK it
                // answered echoes this object's SYN nonce
                let last_synack = w.wire.iter().filter(|r| r.src == w.server.addr && r.dst == addr && r.t_ns <= e.t_ns).filter_map(|r| if let Some(RFrame::SynAck { nonce_ack, .. }) = r.frame { Some(nonce_ack) } else { None }).last();
                if last_synack.is_none() || last_synack != w.clients[ci].syn_nonce {
                    continue;
                }
                started = true;
            }
            if !started {
                continue;
            }
            if ended && !matches!(e.ev, Ev::AppSend(..) | Ev::AppDisconnect | Ev::AppDisconnectNow | Ev::AppDrop) {
                break;
            }
            if matches!(e.ev, Ev::Disconnect | Ev::Error(_) | Ev::AppDrop) {
                ended = true;
            }
            sev.push(e.clone());
        }
    }
    let mut nontrivial = false;
    // both directions: E = the endpoint that called disconnect(), P = its peer
    for dir in 0..2 {
        let (e_ev, p_ev, e_name, p_name) = if dir == 0 { (&cev, &sev, "client", "server") } else { (&sev, &cev, "server", "client") };
        let e_connected = e_ev.iter().any(|e| e.ev == Ev::Connect);
        let td = match e_ev.iter().find(|e| e.ev == Ev::AppDisconnect) {
            Some(e) => e.clone(),
            None => continue,
        };
        if !e_connected {
            continue;
        }
        // was E up at the call? (a terminal event before the call means the call was a no-op)
        let e_terminal_before = e_ev.iter().any(|e| matches!(e.ev, Ev::Disconnect | Ev::Error(_) | Ev::AppDrop) && (e.t_ns, e.step_no) <= (td.t_ns, td.step_no));
        if e_terminal_before {
            continue;
        }
        // caller escalated or dropped: no obligation
        if e_ev.iter().any(|e| matches!(e.ev, Ev::AppDisconnectNow | Ev::AppDrop)) {
            continue;
        }
        // peer's view
        let p_disc = match p_ev.iter().find(|e| e.ev == Ev::Disconnect) {
            Some(e) => e.clone(),
            None => continue,
        };
        // the peer's connection ended before the call (for whatever reason: a stale Disconnect frame
        // of an earlier connection of the same address pair ends a new one): nothing to flush to
        if (p_disc.t_ns, 0) < (td.t_ns, 0) {
            continue;
        }
        // peer application ended it itself before it saw Disconnect: no obligation
        if p_ev.iter().any(|e| matches!(e.ev, Ev::AppDisconnect | Ev::AppDisconnectNow | Ev::AppDrop) && e.t_ns <= p_disc.t_ns) {
            continue;
        }
        // obligations: Reliable packets E submitted before the call (server: after its Connect)
        let mut missing = Vec::new();
        let mut obligations = 0;
        let mut empties_due = 0usize;
        for e in e_ev.iter() {
            if (e.t_ns, e.step_no) > (td.t_ns, td.step_no) {
                break;
            }
            if let Ev::AppSend(h, l, 3) = e.ev {
                obligations += 1;
                if l == 0 {
                    // zero-length packets look alike: the k-th one submitted needs k received
                    empties_due += 1;
                    let got = p_ev.iter().filter(|p| p.ev == Ev::Receive(h, 0) && p.t_ns <= p_disc.t_ns).count();
                    w.c.inc("c09_zero_length_obligations");
                    if got < empties_due {
                        missing.push((e.uid, l, e.t_ns));
                    }
                    continue;
                }
                let got = p_ev.iter().any(|p| p.ev == Ev::Receive(h, l) && p.t_ns <= p_disc.t_ns);
                if !got {
                    missing.push((e.uid, l, e.t_ns));
                }
            }
        }
        if obligations > 0 {
            nontrivial = true;
            w.c.inc("c09_flush_obligations_checked");
        }
        if let Some((uid, l, t)) = missing.first() {
            w.viol("C09", "disconnect-before-reliable-delivered", format!("{} called disconnect() at t={} ms; its peer ({}, address {}) saw Disconnect at t={} ms although {} of {} Reliable packets submitted before the call were not delivered first (first: uid {:?}, {} bytes, submitted at t={} ms)", e_name, td.t_ns / MS, p_name, addr, p_disc.t_ns / MS, missing.len(), obligations, uid, l, t / MS));
        }
    }
    // a peer that has reported Disconnect keeps the ended connection in mind for 20 s and answers
    // every repeated request, so that the caller ends with Disconnect (not Error(Timeout)) as long
    // as the peer is reachable at all
    {
        let srv = w.server.addr;
        for dir in 0..2 {
            let (p_ev, p_addr, e_addr, p_name, p_gap, p_dropped) = if dir == 0 {
                (&sev, srv, addr, "server", w.server.max_step_gap_ns, false)
            } else {
                (&cev, addr, srv, "client", w.clients[ci].max_step_gap_ns, w.clients[ci].dropped_ns.is_some())
            };
            // only a peer that was closed passively lingers (one that asked for the close itself
            // forgets the connection with the acknowledgement), and only this connection instance
            if p_dropped || p_ev.iter().any(|e| matches!(e.ev, Ev::AppDrop | Ev::AppDisconnect | Ev::AppDisconnectNow)) {
                continue;
            }
            let p_disc = match p_ev.iter().find(|e| e.ev == Ev::Disconnect) {
                Some(e) => e.t_ns,
                None => continue,
            };
            let obj_gone = w.clients[ci].dropped_ns.unwrap_or(u64::MAX);
            let next_obj = w.clients.iter().filter(|c| c.addr == addr && c.created_ns > created).map(|c| c.created_ns).min().unwrap_or(u64::MAX);
            let until = (p_disc + 18 * SEC).min(t_end_ns.saturating_sub(p_gap + 200 * MS)).min(obj_gone).min(next_obj);
// (a socket whose receive calls fail may still hold a request when the session ends: only
            // requests the peer has taken out of its socket in time oblige it to answer)
            let rf = recv_faults(w);
            let reqs: Vec<u64> = w.delivered.iter().filter(|d| d.src == e_addr && d.dst == p_addr && matches!(d.frame, Some(RFrame::Disconnect)) && d.t_ns > p_disc && d.t_ns <= until && (!rf || d.read_ns.map_or(false, |r| r <= until))).map(|d| d.t_ns).collect();
            if reqs.is_empty() {
                continue;
            }
            let acks = w.wire.iter().filter(|r| r.src == p_addr && r.dst == e_addr && matches!(r.frame, Some(RFrame::DisconnectAck)) && r.t_ns > p_disc && r.t_ns <= until + p_gap + SEC).count();
            w.c.inc("c09_repeated_requests_to_lingering_peer");
            if acks < reqs.len() {
                w.viol("C09", "repeated-disconnect-request-unanswered", format!("{} (address {}) reported Disconnect at t={} ms; {} further Disconnect requests were delivered to it within the next 18 s (at {:?} ms) but it sent only {} acknowledgements in that time: the caller is left to time out although its peer is reachable", p_name, addr, p_disc / MS, reqs.len(), reqs.iter().map(|t| t / MS).collect::<Vec<_>>(), acks));
            }
        }
    }
    // time budget: from the first Disconnect frame on the wire between the pair
    let srv = w.server.addr;
    // only frames of THIS connection instance: sent by this client object, or by the server after
    // the Connect of the server-side instance matched above
    let s_conn_t = sev.iter().find(|e| e.ev == Ev::Connect).map(|e| e.t_ns);
    let c_gone = w.clients[ci].dropped_ns.unwrap_or(u64::MAX);
    let t0 = w.wire.iter().find(|r| !r.injected && !r.refused && matches!(r.frame, Some(RFrame::Disconnect)) && ((r.src == addr && r.dst == srv && r.t_ns >= created && r.t_ns <= c_gone) || (r.src == srv && r.dst == addr && s_conn_t.map_or(false, |t| r.t_ns >= t)))).map(|r| r.t_ns);
    if let Some(t0) = t0 {
        w.c.inc("c09_disconnect_exchanges");
        let sides: [(&Vec<EvRec>, u64, u64, &str, bool); 2] = [
            (&cev, w.clients[ci].cfg.active_timeout_ms, w.clients[ci].max_step_gap_ns, "client", w.clients[ci].dropped_ns.is_some()),
            (&sev, w.server.cfg.active_timeout_ms, w.server.max_step_gap_ns, "server", false),
        ];
        let mut msgs = Vec::new();
        for (evs, timeout_ms, gap, name, dropped) in sides.iter() {
            if *dropped || evs.iter().any(|e| e.ev == Ev::AppDrop) {
                continue;
            }
            if !evs.iter().any(|e| e.ev == Ev::Connect) {
                continue;
            }
            // an endpoint that started a disconnect of its own later than t0 (requests crossing
            // on a lossy link) gets the retry budget of its own request
            let own_first = w.wire.iter().find(|r| !r.injected && !r.refused && matches!(r.frame, Some(RFrame::Disconnect)) && if *name == "client" { r.src == addr && r.dst == srv && r.t_ns >= created && r.t_ns <= c_gone } else { r.src == srv && r.dst == addr && s_conn_t.map_or(false, |t| r.t_ns >= t) }).map(|r| r.t_ns);
            let start = own_first.map_or(t0, |o| o.max(t0));
            // (receive calls that fail in bursts of up to 1.5 s delay whatever an endpoint does in
            // reaction to a frame by that much)
            let rf_slack = if recv_faults(w) { 2 * SEC } else { 0 };
            let deadline = start.saturating_add((22_000u64).max(*timeout_ms).saturating_mul(MS)).saturating_add(12 * gap + SEC + rf_slack);
            let terminal = evs.iter().find(|e| matches!(e.ev, Ev::Disconnect | Ev::Error(_)));
            match terminal {
                Some(e) if e.t_ns <= deadline => {}
                Some(e) => msgs.push(format!("{} reached its terminal event {:?} at t={} ms, later than t0+budget = {} ms (t0 = first Disconnect frame at {} ms)", name, e.ev, e.t_ns / MS, deadline / MS, t0 / MS)),
                None => {
                    if t_end_ns > deadline {
                        msgs.push(format!("{} has no terminal event by t={} ms; budget ended at {} ms (t0 = first Disconnect frame at {} ms)", name, t_end_ns / MS, deadline / MS, t0 / MS));
                    }
                }
            }
        }
        for m in msgs {
            w.viol("C09", "terminal-event-late", format!("address {}: {}", addr, m));
        }
        // Error(Timeout) is the outcome for a peer that has become unreachable. An endpoint whose
        // own request is on the wire (it is closing) and which then READS a Disconnect or a
        // DisconnectAck from its peer has its answer: it must end with Disconnect, not run its
        // retry budget down to Error(Timeout).
        for (evs, name, steps) in [(&cev, "client", w.clients[ci].step_times.clone()), (&sev, "server", w.server.step_times.clone())] {
            let is_client = name == "client";
            let own_first = w.wire.iter().find(|r| !r.injected && !r.refused && matches!(r.frame, Some(RFrame::Disconnect)) && if is_client { r.src == addr && r.dst == srv && r.t_ns >= created && r.t_ns <= c_gone } else { r.src == srv && r.dst == addr && s_conn_t.map_or(false, |t| r.t_ns >= t) }).map(|r| r.t_ns);
            let own_first = match own_first {
                Some(t) => t,
                None => continue,
            };
            let to = match evs.iter().find(|e| matches!(e.ev, Ev::Disconnect | Ev::Error(_))) {
                Some(e) if e.ev == Ev::Error("timeout") && e.t_ns > own_first => e.t_ns,
                _ => continue,
            };
            if evs.iter().any(|e| e.ev == Ev::AppDrop && e.t_ns <= to) {
                continue;
            }
            let (me, peer) = if is_client { (addr, srv) } else { (srv, addr) };
            w.c.inc("c09_disconnect_attempt_timeouts_checked");
            // an answer put into the socket after the request left and before the step that
            // reported the timeout began: a step reads its socket before it looks at its timers
            let _ = &steps;
            let answer = w.delivered.iter().find(|d| d.src == peer && d.dst == me && matches!(d.frame, Some(RFrame::Disconnect) | Some(RFrame::DisconnectAck)) && d.t_ns > own_first && d.t_ns < to && d.read_ns.map_or(false, |r| r <= to)).map(|d| (d.t_ns, matches!(d.frame, Some(RFrame::Disconnect))));
            if let Some((t_ans, is_req)) = answer {
                w.viol("C09", "timeout-although-peer-answered", format!("{} (address {}) sent its Disconnect request at t={} ms, had a {} from its peer in its socket since t={} ms, and still ended with Error(Timeout) at t={} ms instead of Disconnect: the peer was reachable", name, addr, own_first / MS, if is_req { "Disconnect" } else { "DisconnectAck" }, t_ans / MS, to / MS));
            }
        }
    }
    // disconnect_now(): the request is on the wire by the caller's next step
    for (evs, is_client) in [(&cev, true), (&sev, false)] {
        if let Some(call) = evs.iter().find(|e| e.ev == Ev::AppDisconnectNow) {
            let up = evs.iter().any(|e| e.ev == Ev::Connect && (e.t_ns, e.step_no) <= (call.t_ns, call.step_no)) && !evs.iter().any(|e| matches!(e.ev, Ev::Disconnect | Ev::Error(_) | Ev::AppDrop) && (e.t_ns, e.step_no) <= (call.t_ns, call.step_no));
            let earlier_flush_call = evs.iter().any(|e| e.ev == Ev::AppDisconnect && (e.t_ns, e.step_no) <= (call.t_ns, call.step_no));
            let _ = earlier_flush_call;
            if !up {
                continue;
            }
            // the caller's next step after the call
            let (from, to) = if is_client { (addr, srv) } else { (srv, addr) };
            let next_step_t = if is_client {
                // steps are recorded through events only; use the wire: a Disconnect frame must appear
                // no later than one maximal step gap after the call
                call.t_ns + w.clients[ci].max_step_gap_ns + MS
            } else {
                call.t_ns + w.server.max_step_gap_ns + MS
            };
            let dropped_before = evs.iter().any(|e| e.ev == Ev::AppDrop && e.t_ns <= next_step_t);
            let terminal_before = evs.iter().any(|e| matches!(e.ev, Ev::Disconnect | Ev::Error(_)) && e.t_ns <= next_step_t);
            if dropped_before || terminal_before || t_end_ns <= next_step_t {
                continue;
            }
            w.c.inc("c09_disconnect_now_checked");
            // an earlier disconnect() may already have put the request on the wire
            let first_call_t = evs.iter().find(|e| matches!(e.ev, Ev::AppDisconnect | Ev::AppDisconnectNow)).map_or(call.t_ns, |e| e.t_ns);
            let sent = w.wire.iter().any(|r| !r.injected && r.src == from && r.dst == to && matches!(r.frame, Some(RFrame::Disconnect)) && r.t_ns >= first_call_t && r.t_ns <= next_step_t);
            if !sent {
                w.viol("C09", "disconnect-now-not-immediate", format!("{} called disconnect_now() at t={} ms while connected, but no Disconnect frame was transmitted by its next step (by t={} ms)", if is_client { "client" } else { "server" }, call.t_ns / MS, next_step_t / MS));
            }
        }
    }
    nontrivial
}

/// `send_errors`: the session runs with a send-fault plan (see `SendFaultPlan`): the operating
/// system refuses sends of one or both sides, periodically and / or in bursts. A refused send is in
/// the wire trace as a dropped frame flagged `refused`; every oracle stays on.
fn maybe_send_faults(w: &mut World, seed: u64, params: &Params, horizon_ns: u64) {
    if params.flag("send_errors") {
        let mut r = Rng::new(seed ^ 0x5e4d_e440);
        w.set_send_fault_plan(SendFaultPlan::random(&mut r, horizon_ns));
    } else if params.flag("recv_errors") {
        let mut r = Rng::new(seed ^ 0x4ec7_e440);
        w.set_send_fault_plan(SendFaultPlan::random_recv(&mut r, horizon_ns));
    }
}

/// true when the session's socket-fault plan fails receive calls
fn recv_faults(w: &World) -> bool {
    w.send_faults.as_ref().map_or(false, |p| p.recv_every != 0 || !p.recv_bursts.is_empty())
}

/// true when the session's socket-fault plan refuses sends
fn send_faults_on(w: &World) -> bool {
    w.send_faults.as_ref().map_or(false, |p| p.every != 0 || !p.bursts.is_empty())
}

pub fn run_lifecycle(seed: u64, params: &Params, out: &mut ScnOut) {
    let mut rng = Rng::new(seed);
    let verbose = params.flag("verbose");
    let fault_ns = rng.range(2, 30) * SEC;
    let net = faulty_net(&mut rng, fault_ns, true);
    let mut w = World::new(seed, net, verbose);
    maybe_send_faults(&mut w, seed, params, 40 * SEC);
    // `sock_errors`: the operating system refuses every n-th send (ENOBUFS: the frame is not
    // transmitted, uflow is told so and ignores it) and reports an error on every m-th receive call
    // (ECONNREFUSED after an ICMP error: the receive loop of that step ends early). Only the
    // crash, event-stream, payload and heap oracles are kept for such runs: the others map frames
    // to "the step that read them", which a failing receive call moves.
    let sock_errors = params.flag("sock_errors");
    if sock_errors {
        let mut frng = Rng::new(seed ^ 0x50c3);
        uflow::verif::net::set_socket_faults(*frng.pick(&[0u64, 2, 3, 7, 20, 100]), *frng.pick(&[0u64, 2, 3, 5, 17, 50]));
    }
    let max_clients = params.u64("max_clients", 4) as usize;
    let n_clients = rng.range(1, max_clients as u64) as usize;
    let scfg = uflow::server::Config { max_total_connections: 64, max_active_connections: 32, enable_handshake_errors: rng.chance(0.3), endpoint_config: ep_cfg(&mut rng) };
    let srv_max_packet = scfg.endpoint_config.max_packet_size;
    if !w.bind_server(scfg, cadence(&mut rng)) {
        w.finish();
        world_out(out, &mut w, false, 0, None);
        return;
    }
    let mut horizon = fault_ns + rng.range(30, 90) * SEC;
    if params.flag("miri") {
        // the interpreter manages ~10 endpoint steps per second
        horizon = horizon.min(6 * SEC);
    }
    // per address: the live client slot (reconnects reuse the address)
    let mut live: Vec<Option<usize>> = vec![None; n_clients];
    let mut reconnect_at: Vec<Option<u64>> = (0..n_clients).map(|k| Some(rng.range(0, 2000) * MS * k as u64 / n_clients.max(1) as u64)).collect();
    let mut ccfgs: Vec<uflow::EndpointConfig> = Vec::new();
    for _ in 0..n_clients {
        let mut c = ep_cfg(&mut rng);
        // keep the pair compatible
        c.max_packet_size = c.max_packet_size.min(100_000);
        ccfgs.push(c);
    }
    let p_disc = *rng.pick(&[0.002, 0.01, 0.05]);
    let p_send = *rng.pick(&[0.1, 0.5, 0.9]);
    let mut guard = 0u64;
    loop {
        guard += 1;
        if guard > 2_000_000 || w.panicked {
            break;
        }
        // (re)connects that are due
        for k in 0..n_clients {
            if let Some(t) = reconnect_at[k] {
                if t <= w.now_ns && live[k].is_none() {
                    reconnect_at[k] = None;
                    let nonce = if rng.chance(0.3) { Some(*rng.pick(&[0u32, 0xFFFFFFFF, 0xFFFFF, 0xFFFFFFF0, 0x000FFFF0])) } else { None };
                    live[k] = w.connect_client(ccfgs[k].clone(), client_addr(k), cadence(&mut rng), nonce);
                    w.c.inc("client_objects_created");
                }
            }
        }
        let who = match w.step_next() {
            Some(x) => x,
            None => {
                // nobody alive: jump to the next reconnect, if any
                match reconnect_at.iter().flatten().min() {
                    Some(&t) if t <= horizon => {
                        w.now_ns = t.max(w.now_ns);
                        continue;
                    }
                    _ => break,
                }
            }
        };
        if w.now_ns > horizon {
            break;
        }
        match who {
            Some(i) => {
                let k = (0..n_clients).find(|&k| live[k] == Some(i));
                let st = w.clients[i].state;
                if st != 2 && rng.chance(p_send) {
                    let n = rng.range(1, 4);
                    for _ in 0..n {
                        let len = rng.log_range(12, ccfgs[k.unwrap_or(0)].max_packet_size.min(20_000) as u64) as usize;
                        w.client_send(i, len, rng.below(64) as usize, rng.below(4) as u8);
                    }
                }
                if rng.chance(0.2) {
                    w.client_flush(i);
                }
                if rng.chance(p_disc) {
                    match rng.below(4) {
                        0 | 1 => w.client_disconnect(i, false),
                        2 => w.client_disconnect(i, true),
                        _ => {
                            w.drop_client(i);
                        }
                    }
                }
                // a finished (or dropped) client object is retired; the address may reconnect
                let finished = w.clients[i].client.is_none() || w.clients[i].state == 2;
                if finished {
                    if let Some(k) = k {
                        if w.clients[i].client.is_some() && rng.chance(0.5) {
                            // keep stepping a finished client for a while (nothing may follow the terminal event)
                            if w.now_ns - w.clients[i].events.last().map_or(0, |e| e.t_ns) > 3 * SEC {
                                w.drop_client(i);
                            }
                        } else {
                            w.drop_client(i);
                        }
                        if w.clients[i].client.is_none() {
                            live[k] = None;
                            if rng.chance(0.7) {
                                reconnect_at[k] = Some(w.now_ns + *rng.pick(&[0u64, 1, 100, 2000, 21_000, 30_000]) * MS);
                            }
                        }
                    }
                }
            }
            None => {
                // server application
                let mut addrs: Vec<SocketAddr> = w.server.conn_state.iter().filter(|(_, s)| **s == 1).map(|(a, _)| *a).collect();
                addrs.sort();
                for a in addrs {
                    if rng.chance(p_send * 0.5) {
                        let len = rng.log_range(12, srv_max_packet.min(20_000) as u64) as usize;
                        w.server_send(a, len, rng.below(64) as usize, rng.below(4) as u8);
                    }
                    if rng.chance(p_disc * 0.7) {
                        match rng.below(4) {
                            0 | 1 => w.server_disconnect(a, false),
                            2 => w.server_disconnect(a, true),
                            _ => w.server_drop(a),
                        }
                    }
                }
                if rng.chance(0.2) {
                    w.server_flush();
                }
            }
        }
    }
    let t_end = w.now_ns;
    check_payloads(&mut w);
    check_syn_handling(&mut w);
    check_reack(&mut w);
    let mut nontrivial_c09 = false;
    for ci in 0..w.clients.len() {
        if check_disconnect(&mut w, ci, t_end) {
            nontrivial_c09 = true;
        }
    }
    // C08 non-triviality: a connection reached Up and ended with traffic in the closing phase
    let ended_up = w.server.events.iter().any(|(_, e)| matches!(e.ev, Ev::Disconnect | Ev::Error(_))) && w.c.get("srv_connect") > 0;
    let prop = params.get("prop").unwrap_or("C08");
    let nontrivial = if prop == "C09" { nontrivial_c09 || w.c.get("c09_disconnect_exchanges") > 0 } else { ended_up };
    let sample = if seed % 61 == 0 { Some(history_sample(&w, "lifecycle")) } else { None };
    w.finish();
    if sock_errors {
        let (se, re) = uflow::verif::net::socket_fault_counts();
        w.c.add("socket_send_errors_injected", se as i128);
        w.c.add("socket_recv_errors_injected", re as i128);
        uflow::verif::net::set_socket_faults(0, 0);
        w.violations.retain(|v| matches!(v.prop, "C03" | "C08" | "C01" | "C19"));
    }
    world_out(out, &mut w, nontrivial, seed, sample);
}

// =============================================================================================
// C07: handshake

/// Wire-level reference check for every Connect event (both sides).
fn check_handshake_events(w: &mut World) {
    let srv = w.server.addr;
    // server side
    let sev: Vec<(SocketAddr, EvRec)> = w.server.events.clone();
    let mut epoch_start: HashMap<SocketAddr, u64> = HashMap::new();
    for (a, e) in sev.iter() {
        match e.ev {
            Ev::Connect => {
                let since = *epoch_start.get(a).unwrap_or(&0);
                // nonces of SYN-ACKs the server sent to a in the current epoch
                let nonces: Vec<u32> = w.wire.iter().filter(|r| r.src == srv && r.dst == *a && r.t_ns >= since && r.t_ns <= e.t_ns).filter_map(|r| if let Some(RFrame::SynAck { nonce, .. }) = r.frame { Some(nonce) } else { None }).collect();
                let ok = w.delivered.iter().any(|d| d.src == *a && d.dst == srv && d.t_ns <= e.t_ns && d.t_ns >= since && matches!(d.frame, Some(RFrame::Ack { nonce_ack }) if nonces.contains(&nonce_ack)));
                w.c.inc("c07_server_connects_checked");
                if !ok {
                    w.viol("C07", "server-connect-without-valid-ack", format!("server reported Connect({}) at t={} ms without having received a HandshakeAck from that address echoing a nonce it sent (nonces sent: {:?})", a, e.t_ns / MS, nonces));
                }
            }
            Ev::Disconnect | Ev::Error(_) | Ev::AppDrop => {
                epoch_start.insert(*a, e.t_ns);
            }
            _ => {}
        }
    }
    // client side
    for i in 0..w.clients.len() {
        let addr = w.clients[i].addr;
        let created = w.clients[i].created_ns;
        let nonce = w.clients[i].syn_nonce;
        let evs = w.clients[i].events.clone();
        for e in evs.iter() {
            if let Ev::Error(kind) = e.ev {
                if kind != "timeout" {
                    // a handshake error is only ever reported for an error frame echoing our nonce
                    let code = match kind {
                        "version" => 0,
                        "config" => 1,
                        _ => 2,
                    };
                    w.c.inc("c07_client_errors_checked");
                    let ok = match nonce {
                        Some(n) => w.delivered.iter().any(|d| d.dst == addr && d.t_ns <= e.t_ns && d.t_ns >= created && matches!(d.frame, Some(RFrame::Error { nonce_ack, error }) if nonce_ack == n && error == code)),
                        None => false,
                    };
                    if !ok {
                        w.viol("C07", "client-error-without-valid-error-frame", format!("client {} reported Error({}) at t={} ms without having received an error frame of that kind echoing its nonce {:?}", i, kind, e.t_ns / MS, nonce));
                    }
                }
            }
            if e.ev == Ev::Connect {
                w.c.inc("c07_client_connects_checked");
                let ok = match nonce {
                    Some(n) => w.delivered.iter().any(|d| d.dst == addr && d.t_ns <= e.t_ns && d.t_ns >= created && matches!(d.frame, Some(RFrame::SynAck { nonce_ack, .. }) if nonce_ack == n)),
                    None => false,
                };
                if !ok {
                    w.viol("C07", "client-connect-without-valid-synack", format!("client {} reported Connect at t={} ms without having received a SYN-ACK echoing its nonce {:?}", i, e.t_ns / MS, nonce));
                }
            }
        }
    }
}

/// After both sides connected: first data frames carry the exchanged nonces as starting ids.
fn check_starting_ids(w: &mut World) {
    let srv = w.server.addr;
    for i in 0..w.clients.len() {
        let addr = w.clients[i].addr;
        let created = w.clients[i].created_ns;
        let end = w.clients[i].dropped_ns.unwrap_or(u64::MAX);
        let cn = match w.clients[i].syn_nonce {
            Some(n) => n,
            None => continue,
        };
        let connected = w.clients[i].events.iter().any(|e| e.ev == Ev::Connect);
        if !connected {
            continue;
        }
        // the server nonce the client accepted: from the SYN-ACK echoing cn
        let sn = w.delivered.iter().find_map(|d| if d.dst == addr && d.t_ns >= created { if let Some(RFrame::SynAck { nonce_ack, nonce, .. }) = d.frame { if nonce_ack == cn { Some(nonce) } else { None } } else { None } } else { None });
        let first_c = w.wire.iter().find(|r| !r.injected && r.src == addr && r.dst == srv && r.t_ns >= created && r.t_ns <= end && matches!(r.frame, Some(RFrame::Data { .. })));
        if let Some(r) = first_c {
            if let Some(RFrame::Data { sequence_id, ref datagrams, .. }) = r.frame {
                w.c.inc("c07_first_data_frames_checked");
                let first_pid = datagrams.first().map(|d| d.sequence_id);
                if sequence_id != cn || first_pid.map_or(false, |p| p != cn & PID_MASK) {
                    w.viol("C07", "client-starting-ids", format!("client {} first data frame has frame id {} / packet id {:?}, its SYN nonce was {} (& 0xFFFFF = {})", i, sequence_id, first_pid, cn, cn & PID_MASK));
                }
            }
        }
        if let Some(sn) = sn {
            let first_s = w.wire.iter().find(|r| !r.injected && r.src == srv && r.dst == addr && r.t_ns >= created && r.t_ns <= end && matches!(r.frame, Some(RFrame::Data { .. })));
            if let Some(r) = first_s {
                if let Some(RFrame::Data { sequence_id, ref datagrams, .. }) = r.frame {
                    w.c.inc("c07_first_data_frames_checked");
                    let first_pid = datagrams.first().map(|d| d.sequence_id);
                    if sequence_id != sn || first_pid.map_or(false, |p| p != sn & PID_MASK) {
                        w.viol("C07", "server-starting-ids", format!("server's first data frame to {} has frame id {} / packet id {:?}, the nonce in its accepted SYN-ACK was {}", addr, sequence_id, first_pid, sn));
                    }
                }
            }
        }
    }
}

#[derive(Clone)]
struct HsPlan {
    seed: u64,
    n_clients: usize,
    net_seed: u64,
    server_cfg: uflow::EndpointConfig,
    client_cfgs: Vec<uflow::EndpointConfig>,
    nonces: Vec<Option<u32>>,
    server_nonces: Vec<u32>,
    horizon_ns: u64,
    fault_ns: u64,
    drop_syn: u32,
    drop_synack: u32,
    drop_ack: u32,
}

/// Application-visible history of one handshake scenario: per client the event kinds in order
/// (content and order; times are not compared), and per address on the server.
/// Payloads carry a harness-global uid (assignment order depends on timing), so received packets
/// are compared by length only.
fn show_ev(e: &Ev) -> String {
    match e {
        Ev::Receive(_, l) => format!("Receive({} bytes)", l),
        other => format!("{:?}", other),
    }
}

fn app_history(w: &World) -> Vec<String> {
    let mut h = Vec::new();
    for (i, c) in w.clients.iter().enumerate() {
        let evs: Vec<String> = c.events.iter().filter(|e| matches!(e.ev, Ev::Connect | Ev::Disconnect | Ev::Receive(..) | Ev::Error(_))).map(|e| show_ev(&e.ev)).collect();
        h.push(format!("client{}: {}", i, evs.join(",")));
    }
    let mut by_addr: HashMap<SocketAddr, Vec<String>> = HashMap::new();
    for (a, e) in w.server.events.iter() {
        if matches!(e.ev, Ev::Connect | Ev::Disconnect | Ev::Receive(..) | Ev::Error(_)) {
            by_addr.entry(*a).or_default().push(show_ev(&e.ev));
        }
    }
    let mut addrs: Vec<_> = by_addr.keys().cloned().collect();
    addrs.sort();
    for a in addrs {
        h.push(format!("server[{}]: {}", a, by_addr[&a].join(",")));
    }
    h
}

fn run_handshake_once(plan: &HsPlan, forge: bool, verbose: bool) -> (World, Vec<String>) {
    let mut rng = Rng::new(plan.net_seed);
    let mut net = faulty_net(&mut rng, plan.fault_ns, false);
    for p in net.phases.iter_mut() {
        p.blackout_to_clients = false;
        p.blackout_to_server = false;
    }
    net.handshake_faults_only = true;
    if plan.drop_syn > 0 {
        net.drop_rules.push(DropRule { from: None, to: None, frame_type: "syn", remaining: plan.drop_syn });
    }
    if plan.drop_synack > 0 {
        net.drop_rules.push(DropRule { from: None, to: None, frame_type: "synack", remaining: plan.drop_synack });
    }
    if plan.drop_ack > 0 {
        net.drop_rules.push(DropRule { from: None, to: None, frame_type: "ack", remaining: plan.drop_ack });
    }
    let mut w = World::new(plan.seed, net, verbose);
    let scfg = uflow::server::Config { max_total_connections: 256, max_active_connections: 128, enable_handshake_errors: false, endpoint_config: plan.server_cfg.clone() };
    // server nonces are forced so that a forged frame can be built to differ from the genuine one
    for n in &plan.server_nonces {
        let _ = n;
    }
    w.bind_server(scfg, (10 * MS, 10 * MS));
    let mut frng = Rng::new(mix(plan.seed, 0xf0e6e));
    let mut started = vec![false; plan.n_clients];
    let start_at: Vec<u64> = (0..plan.n_clients).map(|_| rng.range(0, 3000) * MS).collect();
    let mut idx_of: Vec<Option<usize>> = vec![None; plan.n_clients];
    let mut sent_payload: Vec<bool> = vec![false; plan.n_clients];
    let mut guard = 0;
    let mut captured: Vec<(SocketAddr, SocketAddr, Vec<u8>)> = Vec::new();
    let mut wire_seen = 0usize;
    let mut probe_last = u64::MAX;
    loop {
        guard += 1;
        if guard > 1_000_000 || w.panicked {
            break;
        }
        for k in 0..plan.n_clients {
            if !started[k] && start_at[k] <= w.now_ns {
                started[k] = true;
                idx_of[k] = w.connect_client(plan.client_cfgs[k].clone(), client_addr(k), (10 * MS, 30 * MS), plan.nonces[k]);
            }
        }
        let who = w.step_next();
        if who.is_none() || w.now_ns > plan.horizon_ns {
            break;
        }
        if let Ok(v) = std::env::var("UVERIF_PROBE_MS") {
            let every: u64 = v.parse().unwrap_or(1000);
            if w.now_ns / (every * MS) != probe_last {
                probe_last = w.now_ns / (every * MS);
                for (i, c) in w.clients.iter().enumerate() {
                    if let Some(hc) = c.client.as_ref().and_then(|cl| cl.verif_half_connection()) {
                        eprintln!("PROBE forge={} t={} client{} {} rate {} rtt {:?} rto {:?} credit {} queues {:?} tx_frames {:?} tx_packets {:?} log {} sbs {}", forge, w.now_ns / MS, i, c.addr, hc.verif_send_rate(), hc.rtt_s(), hc.verif_rto_ms(), hc.verif_flush_alloc(), hc.verif_queue_lens(), hc.verif_tx_frame_ids(), hc.verif_tx_packet_ids(), hc.verif_frame_log_len(), hc.send_buffer_size());
                    }
                }
            }
        }
        // application: once connected, each side sends a few packets of each mode (echo)
        if let Some(Some(i)) = who {
            let k = (0..plan.n_clients).find(|&k| idx_of[k] == Some(i)).unwrap();
            if w.clients[i].state == 1 && !sent_payload[k] {
                sent_payload[k] = true;
                for m in 0..4u8 {
                    w.client_send(i, 40 + 10 * m as usize, m as usize, m);
                }
                // one packet of the maximum size this client may send
                let maxlen = plan.client_cfgs[k].max_packet_size.min(60_000);
                w.client_send(i, maxlen, 5, 3);
            }
        } else if let Some(None) = who {
            // echo what arrived (server side), once per receive
            let pending: Vec<(SocketAddr, usize)> = w.server.events.iter().rev().take_while(|(_, e)| e.step_no == w.server.steps).filter_map(|(a, e)| if let Ev::Receive(_, l) = e.ev { Some((*a, l)) } else { None }).collect();
            for (a, l) in pending {
                if l <= plan.server_cfg.max_packet_size {
                    w.server_send(a, l.min(5000), 1, 3);
                }
            }
        }
        // remember genuine handshake frames for replays
        if forge {
            while wire_seen < w.wire.len() {
                let r = &w.wire[wire_seen];
                wire_seen += 1;
                if !r.injected && matches!(r.frame, Some(RFrame::Syn { .. }) | Some(RFrame::SynAck { .. }) | Some(RFrame::Ack { .. }) | Some(RFrame::Error { .. })) && captured.len() < 64 {
                    captured.push((r.src, r.dst, encode(r.frame.as_ref().unwrap())));
                }
            }
            if frng.chance(0.15) {
                inject_forged_handshake(&mut w, &mut frng, plan, &captured);
            }
        }
    }
    check_handshake_events(&mut w);
    check_starting_ids(&mut w);
    check_payloads(&mut w);
    let h = app_history(&w);
    (w, h)
}

/// One forged / stale / duplicated handshake frame from a spoofed source.
fn inject_forged_handshake(w: &mut World, rng: &mut Rng, plan: &HsPlan, captured: &[(SocketAddr, SocketAddr, Vec<u8>)]) {
    let srv = w.server.addr;
    let k = rng.below(plan.n_clients as u64) as usize;
    let caddr = client_addr(k);
    // nonces that are in use must not be guessed: collect the genuine ones seen so far
    let genuine: Vec<u32> = w
        .wire
        .iter()
        .filter_map(|r| match r.frame {
            Some(RFrame::Syn { nonce, .. }) => Some(nonce),
            Some(RFrame::SynAck { nonce, .. }) => Some(nonce),
            _ => None,
        })
        .collect();
    let mut wrong = rng.u32();
    while genuine.contains(&wrong) {
        wrong = rng.u32();
    }
    let delay = rng.below(50) * MS;
    match rng.below(7) {
        0 => {
            // spoofed server -> client: SYN-ACK acknowledging a nonce the client never sent
            // limits from boundary values (a forged reply may claim anything), not just random words
            let lim = |rng: &mut Rng| -> u32 { *rng.pick(&[0u32, 1, 22, 23, 1447, 1448, 1472, 1 << 20, u32::MAX, 1000, 100_000]) ^ if rng.chance(0.2) { rng.u32() } else { 0 } };
            let f = RFrame::SynAck { nonce_ack: wrong, nonce: rng.u32(), max_receive_rate: lim(rng), max_packet_size: lim(rng), max_receive_alloc: lim(rng) };
            w.c.inc("forged_synack_wrong_nonce");
            w.inject(srv, caddr, encode(&f), delay);
        }
        1 => {
            // spoofed client -> server: ACK with a nonce the server never sent
            w.c.inc("forged_ack_wrong_nonce");
            w.inject(caddr, srv, encode(&RFrame::Ack { nonce_ack: wrong }), delay);
        }
        2 => {
            // spoofed server -> client: handshake error with the wrong nonce
            w.c.inc("forged_error_wrong_nonce");
            w.inject(srv, caddr, encode(&RFrame::Error { nonce_ack: wrong, error: rng.below(3) as u8 }), delay);
        }
        3 | 4 if !captured.is_empty() => {
            // verbatim replay of an earlier genuine handshake frame (stale duplicate)
            let (s, d, b) = rng.pick(captured).clone();
            // replaying the SYN of an address whose connection has ended would be a genuine new
            // request as far as the server can tell; only replay SYNs of addresses that are still
            // tracked, and never replay a frame that has not yet been delivered once
            let t_now = w.now_ns;
            let f = decode(&b);
            let delivered_once = w.delivered.iter().any(|x| x.src == s && x.dst == d && x.frame == f && x.t_ns <= t_now);
            let is_syn = matches!(f, Some(RFrame::Syn { .. }));
            let tracked = w.server.server.as_ref().map_or(false, |sv| sv.client(&s).is_some());
            let is_error = matches!(f, Some(RFrame::Error { .. }));
            let _ = (is_syn, tracked);
            if delivered_once && !is_error {
                w.c.inc("replayed_genuine_handshake_frame");
                w.inject(s, d, b, delay);
            }
        }
        5 => {
            // SYN from an address that already has a connection or a handshake in progress
            let tracked = w.server.server.as_ref().map_or(false, |sv| sv.client(&caddr).is_some());
            if tracked {
                w.c.inc("forged_syn_for_tracked_address");
                let f = RFrame::Syn { version: 3, nonce: wrong, max_receive_rate: 1_000_000, max_packet_size: 1000, max_receive_alloc: 1_000_000 };
                w.inject(caddr, srv, encode(&f), delay);
            }
        }
        _ => {
            // stray SYN-ACK / error sent to the server, stray SYN / ACK sent to a client
            w.c.inc("forged_misdirected_frame");
            if rng.chance(0.5) {
                w.inject(caddr, srv, encode(&RFrame::SynAck { nonce_ack: rng.u32(), nonce: rng.u32(), max_receive_rate: 1, max_packet_size: 1, max_receive_alloc: 1 }), delay);
            } else {
                w.inject(srv, caddr, encode(&RFrame::Ack { nonce_ack: rng.u32() }), delay);
            }
        }
    }
}

pub fn run_handshake(seed: u64, params: &Params, out: &mut ScnOut) {
    let mut rng = Rng::new(seed);
    let verbose = params.flag("verbose");
    let n_clients = rng.range(1, params.u64("max_clients", 6)) as usize;
    let mut server_cfg = ep_cfg(&mut rng);
    server_cfg.keepalive_interval_ms = 2000;
    server_cfg.active_timeout_ms = *rng.pick(&[10_000u64, 20_000]);
    let mut client_cfgs = Vec::new();
    let mut nonces = Vec::new();
    for _ in 0..n_clients {
        let mut c = ep_cfg(&mut rng);
        c.keepalive_interval_ms = 2000;
        c.active_timeout_ms = *rng.pick(&[10_000u64, 20_000]);
        c.max_packet_size = c.max_packet_size.min(server_cfg.max_receive_alloc);
        c.max_receive_alloc = c.max_receive_alloc.max(server_cfg.max_packet_size);
        client_cfgs.push(c);
        nonces.push(if rng.chance(0.4) { Some(*rng.pick(&[0u32, 1, 0xFFFFFFFF, 0xFFFFFFFE, 0x000FFFFF, 0xFFF00000, 0x7FFFFFFF])) } else { None });
    }
    let fault_ns = rng.range(1, 25) * SEC;
    let plan = HsPlan {
        seed,
        n_clients,
        net_seed: mix(seed, 9),
        server_cfg,
        client_cfgs,
        nonces,
        server_nonces: Vec::new(),
        horizon_ns: fault_ns + 45 * SEC,
        fault_ns,
        drop_syn: if rng.chance(0.3) { rng.range(0, 11) as u32 } else { 0 },
        drop_synack: if rng.chance(0.3) { rng.range(0, 11) as u32 } else { 0 },
        drop_ack: if rng.chance(0.3) { rng.range(0, 11) as u32 } else { 0 },
    };
    let (mut wa, ha) = run_handshake_once(&plan, false, params.flag("verbose_clean"));
    wa.finish();
    let (mut wb, hb) = run_handshake_once(&plan, true, verbose);
    if params.flag("dump") {
        for (name, w) in [("clean", &wa), ("forged", &wb)] {
            for (a, e) in w.server.events.iter() {
                if !matches!(e.ev, Ev::AppSend(..)) {
                    eprintln!("{} t={} server {} {}", name, e.t_ns / MS, a, show_ev(&e.ev));
                }
            }
            for (i, c) in w.clients.iter().enumerate() {
                for e in c.events.iter() {
                    eprintln!("{} t={} client{} {:?}", name, e.t_ns / MS, i, e.ev);
                }
                if let Some(cl) = c.client.as_ref() {
                    eprintln!("{} END client{} addr {} active {} rtt {:?} sbs {}", name, i, c.addr, cl.is_active(), cl.rtt_s(), cl.send_buffer_size());
                    if let Some(hc) = cl.verif_half_connection() {
                        eprintln!("   rate {} rto {:?} credit {} queues {:?} tx_frames {:?} tx_packets {:?} log {}", hc.verif_send_rate(), hc.verif_rto_ms(), hc.verif_flush_alloc(), hc.verif_queue_lens(), hc.verif_tx_frame_ids(), hc.verif_tx_packet_ids(), hc.verif_frame_log_len());
                    }
                }
            }
        }
    }
    let forged = wb.c.get("datagrams_injected");
    // Invariants that must hold in both runs (the data phase of this family is fault-free with
    // keepalive on, every address is used by exactly one client object):
    for (name, w) in [("clean", &mut wa), ("forged", &mut wb)] {
        let mut connects: HashMap<SocketAddr, u32> = HashMap::new();
        for (a, e) in w.server.events.iter() {
            if e.ev == Ev::Connect {
                *connects.entry(*a).or_default() += 1;
            }
        }
        let mut addrs: Vec<_> = connects.iter().filter(|(_, n)| **n > 1).map(|(a, n)| (*a, *n)).collect();
        addrs.sort();
        if let Some((a, n)) = addrs.first() {
            w.viol("C07", "second-connection-for-one-handshake", format!("{} run: the server reported Connect {} times for {} although only one client object ever connected from that address ({} forged / stale frames in this run)", name, n, a, if name == "forged" { forged } else { 0 }));
        }
        for i in 0..w.clients.len() {
            let addr = w.clients[i].addr;
            let c_conn = w.clients[i].events.iter().find(|e| e.ev == Ev::Connect).map(|e| e.t_ns);
            let s_conn = w.server.events.iter().find(|(a, e)| *a == addr && e.ev == Ev::Connect).map(|(_, e)| e.t_ns);
            if let (Some(tc), Some(ts)) = (c_conn, s_conn) {
                w.c.inc("c07_established_connections_watched");
                let c_end = w.clients[i].events.iter().find(|e| matches!(e.ev, Ev::Disconnect | Ev::Error(_))).cloned();
                let s_end = w.server.events.iter().find(|(a, e)| *a == addr && e.t_ns >= ts && matches!(e.ev, Ev::Disconnect | Ev::Error(_))).map(|(_, e)| e.clone());
                // an end that predates the later of the two Connects belongs to the handshake
                // phase (e.g. the server's entry expired while ACKs were being lost)
                let both = tc.max(ts);
                for (who, end) in [("client", c_end), ("server", s_end)] {
                    if let Some(e) = end {
                        // a timeout can have causes unrelated to the handshake (C10/C11 judge those);
                        // Disconnect or a handshake error on an established connection cannot
                        if e.t_ns > both && e.ev != Ev::Error("timeout") {
                            w.viol("C07", "established-connection-ended", format!("{} run: connection of {} was established on both sides by t={} ms, nobody disconnected and the data phase is fault-free, yet the {} reported {:?} at t={} ms ({} forged / stale handshake frames in this run)", name, addr, both / MS, who, e.ev, e.t_ns / MS, if name == "forged" { forged } else { 0 }));
                        }
                    }
                }
            }
        }
    }
    if ha == hb {
        wb.c.inc("twin_histories_identical");
    } else {
        wb.c.inc("twin_histories_differ_in_timing_dependent_ways");
    }
    if false {
        let pos = ha.iter().zip(hb.iter()).position(|(a, b)| a != b).unwrap_or(0);
        let a = ha.get(pos).cloned().unwrap_or_default();
        let b = hb.get(pos).cloned().unwrap_or_default();
        let mut a2 = a.clone();
        a2.truncate(400);
        let mut b2 = b.clone();
        b2.truncate(400);
        wb.viol("C07", "forged-handshake-frame-changed-history", format!("twin runs differ: with {} forged / stale / duplicated handshake frames from spoofed sources the application-visible history changed: without: [{}] with: [{}]", forged, a2, b2));
    }
    check_reack(&mut wa);
    check_reack(&mut wb);
    // violations seen in the clean run count as well
    wb.violations.extend(std::mem::take(&mut wa.violations));
    let ra = wa.c.get("c07_repeated_synacks_to_established_client") + wa.c.get("c07_valid_acks_read_by_server");
    wb.c.add("c07_reack_cases_clean_run", ra);
    let lost_hs = wb.c.get("fate_drop") > 0;
    let nontrivial = forged >= 1 || lost_hs;
    let sample = if seed % 61 == 0 { Some(history_sample(&wb, "handshake twin (forged run)")) } else { None };
    wb.finish();
    world_out(out, &mut wb, nontrivial, seed, sample);
}

/// Version / configuration mismatches are refused with the matching error.
pub fn run_handshake_mismatch(seed: u64, params: &Params, out: &mut ScnOut) {
    let mut rng = Rng::new(seed);
    let verbose = params.flag("verbose");
    let mut w = World::new(seed, NetCfg::ideal(rng.range(0, 50)), verbose);
    let mut scfg_ep = ep_cfg(&mut rng);
    scfg_ep.max_packet_size = *rng.pick(&[1000usize, 50_000, 200_000]);
    scfg_ep.max_receive_alloc = *rng.pick(&[20_000usize, 100_000, 1_000_000]).max(&scfg_ep.max_packet_size);
    let errors_on = rng.chance(0.5);
    let scfg = uflow::server::Config { max_total_connections: 64, max_active_connections: 32, enable_handshake_errors: errors_on, endpoint_config: scfg_ep.clone() };
    w.bind_server(scfg, (10 * MS, 10 * MS));
    // expectation per client
    let n = rng.range(1, 5) as usize;
    let mut expect: Vec<&'static str> = Vec::new();
    for k in 0..n {
        let mut c = ep_cfg(&mut rng);
        let kind = rng.below(4);
        match kind {
            0 => {
                // compatible
                c.max_packet_size = c.max_packet_size.min(scfg_ep.max_receive_alloc);
                c.max_receive_alloc = c.max_receive_alloc.max(scfg_ep.max_packet_size);
                expect.push("connect");
            }
            1 => {
                // client's packets may exceed the server's receive allocation
                c.max_packet_size = scfg_ep.max_receive_alloc + 1 + rng.below(1000) as usize;
                c.max_receive_alloc = c.max_receive_alloc.max(scfg_ep.max_packet_size);
                if c.max_packet_size > 94_896_128 {
                    c.max_packet_size = 94_896_128;
                }
                expect.push("config");
            }
            2 => {
                // server's packets may exceed the client's receive allocation
                c.max_packet_size = c.max_packet_size.min(scfg_ep.max_receive_alloc);
                c.max_receive_alloc = scfg_ep.max_packet_size - 1 - rng.below(scfg_ep.max_packet_size.min(500) as u64 - 1) as usize;
                c.max_receive_alloc = c.max_receive_alloc.max(1);
                c.max_packet_size = c.max_packet_size.min(c.max_receive_alloc.max(1)).min(scfg_ep.max_receive_alloc);
                expect.push("config");
            }
            _ => {
                c.max_packet_size = c.max_packet_size.min(scfg_ep.max_receive_alloc);
                c.max_receive_alloc = c.max_receive_alloc.max(scfg_ep.max_packet_size);
                expect.push("connect");
            }
        }
        w.connect_client(c, client_addr(k), (10 * MS, 10 * MS), None);
    }
    // a raw peer with the wrong protocol version
    let raw = client_addr(900);
    let ver = foreign_version(&mut rng);
    let raw_nonce = rng.u32();
    w.known_addrs.push(raw);
    w.inject(raw, server_addr(), encode(&RFrame::Syn { version: ver, nonce: raw_nonce, max_receive_rate: 1_000_000, max_packet_size: 1000, max_receive_alloc: 1_000_000 }), 5 * MS);
    while w.now_ns < 4 * SEC && !w.panicked {
        if w.step_next().is_none() {
            break;
        }
    }
    for k in 0..n {
        let evs: Vec<Ev> = w.clients[k].events.iter().map(|e| e.ev.clone()).collect();
        let got = match evs.first() {
            Some(Ev::Connect) => "connect",
            Some(Ev::Error(e)) => e,
            _ => "nothing",
        };
        w.c.inc("c07_mismatch_cases_checked");
        if got != expect[k] {
            let (a, b, c2, d) = (w.clients[k].cfg.max_packet_size, w.clients[k].cfg.max_receive_alloc, scfg_ep.max_packet_size, scfg_ep.max_receive_alloc);
            w.viol("C07", "mismatch-not-refused-correctly", format!("client with max_packet_size {} max_receive_alloc {} against server max_packet_size {} max_receive_alloc {}: expected {}, client saw {}", a, b, c2, d, expect[k], got));
        }
        if expect[k] == "config" {
            // the matching error frame was on the wire
            let addr = w.clients[k].addr;
            let ok = w.wire.iter().any(|r| r.dst == addr && matches!(r.frame, Some(RFrame::Error { error: 1, .. })));
            if !ok {
                w.viol("C07", "mismatch-error-frame-missing", format!("no Config error frame was sent to {}", addr));
            }
            if errors_on && !w.server.events.iter().any(|(a, e)| *a == addr && e.ev == Ev::Error("config")) {
                w.viol("C07", "mismatch-error-event-missing", format!("enable_handshake_errors is on but the server reported no Config error for {}", addr));
            }
            if w.server.events.iter().any(|(a, e)| *a == addr && e.ev == Ev::Connect) {
                w.viol("C07", "mismatch-connected", format!("server reported Connect for {} despite the configuration mismatch", addr));
            }
        }
    }
    // the wrong-version raw peer got a Version error echoing its nonce, and nothing else
    let replies: Vec<&WireRec> = w.wire.iter().filter(|r| r.dst == raw).collect();
    let ok = replies.len() == 1 && matches!(replies[0].frame, Some(RFrame::Error { nonce_ack, error: 0 }) if nonce_ack == raw_nonce);
    if !ok {
        let d: Vec<String> = replies.iter().map(|r| format!("{:?}", r.frame)).collect();
        w.viol("C07", "version-mismatch-reply", format!("SYN with protocol version {} was answered with {:?}, expected exactly one Version error echoing the nonce", ver, d));
    }
    let sample = if seed % 61 == 0 { Some(history_sample(&w, "handshake mismatch grid")) } else { None };
    w.finish();
    world_out(out, &mut w, true, mix(seed, ver as u64), sample);
}

// =============================================================================================
// C05 / C06 at endpoint level: real Client and Server with unequal limits on an ideal network

/// Client and server are configured independently (what each may send, what each can hold: the
/// four values are negotiated in the handshake and each end must use the OTHER's allowance), the
/// network neither loses nor reorders, both applications submit bursts larger than the allowances.
/// Oracle: nothing is ever replaced by a data-less placeholder (C06), and each application sees
/// exactly the other's submissions, in order, TimeSensitive ones possibly missing (C05).
pub fn run_ep_ideal(seed: u64, params: &Params, out: &mut ScnOut) {
    let mut rng = Rng::new(seed);
    let verbose = params.flag("verbose");
    let latency = *rng.pick(&[0u64, 5, 40]);
    let mut w = World::new(seed, NetCfg::ideal(latency), verbose);
    maybe_send_faults(&mut w, seed, params, 40 * SEC);
    // limits above 2^32 are legal (usize) and advertised as 2^32-1
    let allocs = [3_000usize, 20_000, 64_000, 300_000, 1_000_000, 1_000_000, 1 << 32, (1 << 33) + 5_000, usize::MAX];
    let c_alloc = *rng.pick(&allocs);
    let s_alloc = *rng.pick(&allocs);
    // each may send packets up to the other's allowance, also far above its own
    let c_pkt = rng.log_range(100, (s_alloc as u64).min(1_000_000)) as usize;
    let s_pkt = rng.log_range(100, (c_alloc as u64).min(1_000_000)) as usize;
    // `tiny_rates`: legal limits below one frame per second (outside the domain of C13 / C14, whose
    // oracles are skipped then; the crash, hang and delivery oracles still apply)
    let tiny = params.flag("tiny_rates");
    let rates: Vec<usize> = if tiny { vec![1, 2, 22, 23, 24, 100, 1000, 1471, 2_000_000] } else { vec![20_000usize, 100_000, 2_000_000, 10_000_000, 1 << 32, (1 << 32) + 2_000_000, usize::MAX] };
    let ccfg = uflow::EndpointConfig { max_send_rate: *rng.pick(&rates), max_receive_rate: *rng.pick(&rates), max_packet_size: c_pkt, max_receive_alloc: c_alloc, keepalive: true, keepalive_interval_ms: 2000, active_timeout_ms: 60_000 };
    let scfg_ep = uflow::EndpointConfig { max_send_rate: *rng.pick(&rates), max_receive_rate: *rng.pick(&rates), max_packet_size: s_pkt, max_receive_alloc: s_alloc, keepalive: true, keepalive_interval_ms: 2000, active_timeout_ms: 60_000 };
    let cads = [(MS, MS), (10 * MS, 10 * MS), (50 * MS, 50 * MS), (100 * MS, 100 * MS)];
    let scfg = uflow::server::Config { max_total_connections: 4, max_active_connections: 4, enable_handshake_errors: true, endpoint_config: scfg_ep.clone() };
    w.bind_server(scfg, *rng.pick(&cads));
    let addr = client_addr(0);
    let cap = |v: usize| -> u64 { (v as u64).min(u32::MAX as u64) };
    // ceilings of the two directions as negotiated: min(local send, peer receive)
    let b_c2s = cap(ccfg.max_send_rate).min(cap(scfg_ep.max_receive_rate)) as f64;
    let b_s2c = cap(scfg_ep.max_send_rate).min(cap(ccfg.max_receive_rate)) as f64;
    let (mut rtt_c, mut rtt_s) = (0.0f64, 0.0f64);
    // a quarter of the sessions have a predecessor: an earlier connection from the same address that
    // the client closed 6..19 s before; the server still remembers it (20 s) when the new SYNs
    // arrive, and whatever it has scheduled for the old connection must not touch the new one
    let mut prng = Rng::new(seed ^ 0x9e7);
    let pre = !tiny && prng.chance(0.25);
    let mut t_pre_disc = 0u64;
    if pre {
        if let Some(p) = w.connect_client(ccfg.clone(), addr, (10 * MS, 10 * MS), None) {
            let until = w.now_ns + 2 * SEC;
            while w.now_ns < until && w.clients[p].state != 1 {
                if w.step_next().is_none() {
                    break;
                }
            }
            for _ in 0..3 {
                w.client_send(p, 200.min(c_pkt), 0, 3);
            }
            let until = w.now_ns + 300 * MS;
            while w.now_ns < until {
                if w.step_next().is_none() {
                    break;
                }
            }
            w.client_disconnect(p, true);
            let until = w.now_ns + 3 * SEC;
            while w.now_ns < until && !(w.clients[p].state == 2 && w.server.conn_state.get(&addr) == Some(&2)) {
                if w.step_next().is_none() {
                    break;
                }
            }
            if !(w.clients[p].state == 2 && w.server.conn_state.get(&addr) == Some(&2)) {
                // the predecessor did not close cleanly in time: not the scenario meant here
                w.finish();
                world_out(out, &mut w, false, 0, None);
                return;
            }
            t_pre_disc = w.now_ns;
            w.drop_client(p);
            let until = w.now_ns + prng.range(6000, 19_000) * MS;
            while w.now_ns < until {
                if w.step_next().is_none() {
                    w.now_ns += 10 * MS;
                }
            }
            w.c.inc("ep_ideal_sessions_with_predecessor");
        }
    }
    // another fifth: a predecessor that never got beyond its SYN — a client with OTHER limits (it
    // could hold much more) that was started at this address and went away at once; the server's
    // half-open handshake for it is still pending (22 s) when the client proper starts 2.5..15 s
    // later, and nothing of the first SYN may stick to the connection that is eventually made
    let pre_half_open = !tiny && !pre && prng.chance(0.2);
    if pre_half_open {
        let mut pc = ccfg.clone();
        pc.max_receive_alloc = *prng.pick(&[50_000_000usize, 1 << 32, usize::MAX]);
        pc.max_receive_rate = *prng.pick(&[50_000_000usize, 1 << 32]);
        pc.max_packet_size = ccfg.max_packet_size;
        if let Some(p) = w.connect_client(pc, addr, (10 * MS, 10 * MS), None) {
            w.drop_client(p);
            let until = w.now_ns + prng.range(2500, 15_000) * MS;
            while w.now_ns < until {
                if w.step_next().is_none() {
                    w.now_ns += 10 * MS;
                }
            }
            w.c.inc("ep_ideal_sessions_after_a_half_open_handshake");
        }
    }
    let ci = match w.connect_client(ccfg.clone(), addr, *rng.pick(&cads), None) {
        Some(i) => i,
        None => {
            w.finish();
            world_out(out, &mut w, false, 0, None);
            return;
        }
    };
    let dud0 = uflow::verif::dud_count();
    let n_c = if pre { *rng.pick(&[100usize, 400, 1500]) } else { *rng.pick(&[0usize, 100, 400, 1500]) };
    let mut s_was_up = false;
    let n_s = *rng.pick(&[0usize, 100, 400, 1500]);
    let burst_c = *rng.pick(&[1u64, 10, 200]);
    let burst_s = *rng.pick(&[1u64, 10, 200]);
    let (mut sent_c, mut sent_s) = (0usize, 0usize);
    let size = |rng: &mut Rng, max: usize| -> usize {
        match rng.below(4) {
            0 => rng.range(12, 64.min(max as u64).max(12)) as usize,
            1 => rng.log_range(12, (max as u64).max(13)) as usize,
            2 => max,
            _ => rng.range(12, 3000.min(max as u64).max(12)) as usize,
        }
        .min(max)
        .max(12.min(max))
    };
    let horizon = 900 * SEC;
    let mut live_viol: Option<String> = None;
    let mut idle_since: Option<u64> = None;
    let mut guard = 0u64;
    while w.now_ns <= horizon && !w.panicked {
        guard += 1;
        if guard > 3_000_000 {
            break;
        }
        let who = match w.step_next() {
            Some(x) => x,
            None => break,
        };
        let c_up = w.clients[ci].state == 1;
        let s_up = w.server.conn_state.get(&addr) == Some(&1);
        s_was_up |= s_up;
        if w.clients[ci].state == 2 || (w.server.conn_state.get(&addr) == Some(&2) && (s_was_up || !(pre || pre_half_open))) {
            break;
        }
        // C14 at endpoint level: the allowed rate of either sender never exceeds the ceiling that
        // follows from the two configurations
        if let Some((x, r)) = w.clients[ci].client.as_ref().and_then(|c| c.verif_half_connection()).map(|h| (h.verif_send_rate(), h.rtt_s().unwrap_or(0.0))) {
            rtt_c = rtt_c.max(r);
            w.c.inc("ep_live_rate_samples");
            if x > b_c2s && live_viol.is_none() {
                live_viol = Some(format!("client's allowed send rate is {} B/s at t={} ms; the ceiling is min(client max_send_rate {}, server max_receive_rate {}) = {}", x, w.now_ns / MS, ccfg.max_send_rate, scfg_ep.max_receive_rate, b_c2s));
            }
        }
        if let Some((x, r)) = w.server.server.as_ref().and_then(|s| s.client(&addr)).and_then(|rc| rc.borrow().verif_half_connection().map(|h| (h.verif_send_rate(), h.rtt_s().unwrap_or(0.0)))) {
            rtt_s = rtt_s.max(r);
            w.c.inc("ep_live_rate_samples");
            if x > b_s2c && live_viol.is_none() {
                live_viol = Some(format!("server's allowed send rate towards the client is {} B/s at t={} ms; the ceiling is min(server max_send_rate {}, client max_receive_rate {}) = {}", x, w.now_ns / MS, scfg_ep.max_send_rate, ccfg.max_receive_rate, b_s2c));
            }
        }
        if c_up && s_up {
            match who {
                // (with a predecessor, the second half of the client's packets waits until the
                // server's 20 s memory of the old connection has run out)
                Some(_) if sent_c < n_c && !(pre && sent_c >= n_c / 2 && w.now_ns < t_pre_disc + 23 * SEC) => {
                    for _ in 0..rng.range(0, burst_c) {
                        if sent_c < n_c {
                            let l = size(&mut rng, c_pkt);
                            w.client_send(ci, l, rng.below(64) as usize, rng.below(4) as u8);
                            sent_c += 1;
                        }
                    }
                }
                None if sent_s < n_s => {
                    for _ in 0..rng.range(0, burst_s) {
                        if sent_s < n_s {
                            let l = size(&mut rng, s_pkt);
                            w.server_send(addr, l, rng.below(64) as usize, rng.below(4) as u8);
                            sent_s += 1;
                        }
                    }
                }
                _ => {}
            }
        }
        // done when everything was submitted and neither end has anything pending for 3 s
        if c_up && s_up && sent_c >= n_c && sent_s >= n_s {
            let c_pending = w.clients[ci].client.as_ref().and_then(|c| c.verif_half_connection()).map_or(false, |h| h.is_send_pending());
            let s_pending = w.server.server.as_ref().and_then(|s| s.client(&addr)).map_or(false, |rc| rc.borrow().verif_half_connection().map_or(false, |h| h.is_send_pending()));
            if c_pending || s_pending {
                idle_since = None;
            } else if idle_since.is_none() {
                idle_since = Some(w.now_ns);
            } else if w.now_ns - idle_since.unwrap() > 3 * SEC {
                break;
            }
        }
    }
    let finished = idle_since.map_or(false, |t| w.now_ns - t > 3 * SEC);
    let duds = uflow::verif::dud_count() - dud0;
    if duds > 0 {
        w.viol("C06", "dud-between-uflow-endpoints", format!("{} packets were replaced by data-less placeholders because a receive allocation was exceeded, between a real Client (may send {} B packets, can hold {} B) and Server (may send {}, can hold {}) on an ideal network", duds, c_pkt, c_alloc, s_pkt, s_alloc));
    }
    check_payloads(&mut w);
    if let Some(m) = live_viol {
        // (C14 is stated for ceilings of at least one frame per second)
        if b_c2s >= 1472.0 && b_s2c >= 1472.0 {
            w.viol("C14", "live-rate-above-ceiling", m);
        }
    }
    // C07: what goes on the wire in the handshake is the configuration, capped at 2^32-1
    {
        let want_syn = (cap(ccfg.max_receive_rate) as u32, cap(ccfg.max_packet_size) as u32, cap(ccfg.max_receive_alloc) as u32);
        let want_synack = (cap(scfg_ep.max_receive_rate) as u32, cap(scfg_ep.max_packet_size) as u32, cap(scfg_ep.max_receive_alloc) as u32);
        let mut bad: Option<String> = None;
        let t_main = w.clients[ci].created_ns;
        for r in w.wire.iter().filter(|r| r.t_ns >= t_main) {
            match r.frame {
                Some(RFrame::Syn { max_receive_rate, max_packet_size, max_receive_alloc, .. }) if r.src == addr => {
                    w.c.inc("ep_advertised_limits_checked");
                    if (max_receive_rate, max_packet_size, max_receive_alloc) != want_syn && bad.is_none() {
                        bad = Some(format!("the client's SYN advertises (receive rate, packet size, receive allocation) = {:?}, its configuration capped at 2^32-1 is {:?}", (max_receive_rate, max_packet_size, max_receive_alloc), want_syn));
                    }
                }
                Some(RFrame::SynAck { max_receive_rate, max_packet_size, max_receive_alloc, .. }) if r.dst == addr => {
                    w.c.inc("ep_advertised_limits_checked");
                    if (max_receive_rate, max_packet_size, max_receive_alloc) != want_synack && bad.is_none() {
                        bad = Some(format!("the server's SYN-ACK advertises (receive rate, packet size, receive allocation) = {:?}, its configuration capped at 2^32-1 is {:?}", (max_receive_rate, max_packet_size, max_receive_alloc), want_synack));
                    }
                }
                _ => {}
            }
        }
        if let Some(m) = bad {
            w.viol("C07", "advertised-limits-differ-from-configuration", m);
        }
        let connected = w.clients[ci].events.iter().any(|e| e.ev == Ev::Connect) && w.server.events.iter().any(|(a, e)| *a == addr && e.ev == Ev::Connect);
        if !connected && !w.panicked {
            let ce: Vec<String> = w.clients[ci].events.iter().take(3).map(|e| format!("{:?}", e.ev)).collect();
            w.viol("C07", "compatible-configurations-did-not-connect", format!("client (may send {} B packets, can hold {}, receive rate {}) and server (may send {}, can hold {}, receive rate {}) are compatible but did not connect on an ideal network; client saw {:?}", c_pkt, c_alloc, ccfg.max_receive_rate, s_pkt, s_alloc, scfg_ep.max_receive_rate, ce));
        }
    }
    // C13 at endpoint level: connection frames (data, acks, sync) per direction against the
    // negotiated ceiling, with the largest RTT estimate the sender ever held and its largest step
    // interval (the coarse form of the bound: anything it reports is far outside)
    for (dir, src, b, rtt, gap) in [("client->server", addr, b_c2s, rtt_c, w.clients[ci].max_step_gap_ns), ("server->client", w.server.addr, b_s2c, rtt_s, w.server.max_step_gap_ns)] {
        if b < 1472.0 {
            continue; // C13 is stated for ceilings of at least one frame per second
        }
        let tr: Vec<crate::hcsim::TxEvent> = w.wire.iter().filter(|r| r.src == src && !r.injected && !r.refused && matches!(r.frame, Some(RFrame::Data { .. }) | Some(RFrame::Acks { .. }) | Some(RFrame::Sync { .. }))).map(|r| crate::hcsim::TxEvent { t_ns: r.t_ns, len: r.len as u32, rtt_s: rtt, step_dt_ns: gap, after_app_flush: true }).collect();
        let mut v = Vec::new();
        let mut cc = Counters::default();
        crate::hcsim::check_rate_trace(if dir == "client->server" { 0 } else { 1 }, b, &tr, &mut cc, &mut v);
        w.c.add("ep_rate_events", cc.get("rate_events"));
        for x in v {
            if x.sig.starts_with("C13:rate-exceeded") || x.sig.starts_with("C13:long-run") {
                w.viol("C13", "ep-rate-exceeded", format!("{} (negotiated ceiling {} B/s): {}", dir, b, x.msg));
                break;
            }
        }
    }
    // C05: each application sees exactly the other's submissions, in order
    let c_sends: Vec<(u64, usize, u8)> = w.clients[ci].events.iter().filter_map(|e| if let Ev::AppSend(h, l, m) = e.ev { Some((h, l, m)) } else { None }).collect();
    // (only the main client object's connection: a predecessor's events lie before its creation)
    let t_main = w.clients[ci].created_ns;
    let s_sends: Vec<(u64, usize, u8)> = w.server.events.iter().filter(|(a, e)| *a == addr && e.t_ns >= t_main).filter_map(|(_, e)| if let Ev::AppSend(h, l, m) = e.ev { Some((h, l, m)) } else { None }).collect();
    let c_recv: Vec<(u64, usize)> = w.clients[ci].events.iter().filter_map(|e| if let Ev::Receive(h, l) = e.ev { Some((h, l)) } else { None }).collect();
    let s_recv: Vec<(u64, usize)> = w.server.events.iter().filter(|(a, e)| *a == addr && e.t_ns >= t_main).filter_map(|(_, e)| if let Ev::Receive(h, l) = e.ev { Some((h, l)) } else { None }).collect();
    for (dir, sends, recv) in [("client->server", &c_sends, &s_recv), ("server->client", &s_sends, &c_recv)] {
        let mut ri = 0;
        let mut missing: Vec<usize> = Vec::new();
        for (k, (h, l, m)) in sends.iter().enumerate() {
            if ri < recv.len() && recv[ri] == (*h, *l) {
                ri += 1;
            } else if *m != 0 {
                missing.push(k);
            }
        }
        w.c.add("ep_ideal_packets_checked", sends.len() as i128);
        if ri < recv.len() {
            w.viol("C05", "ep-order-on-ideal-network", format!("{}: delivery #{} ({} bytes) is not the next submission in order (ideal network, {} submitted, {} delivered)", dir, ri, recv[ri].1, sends.len(), recv.len()));
        } else if finished && !missing.is_empty() {
            w.viol("C05", "ep-not-delivered-on-ideal-network", format!("{}: {} of {} non-TimeSensitive packets never reached the application on an ideal network although both ends report nothing pending (first: submission #{} of {} bytes); client may send {} B packets / can hold {} B, server may send {} / can hold {}", dir, missing.len(), sends.len(), missing[0], sends[missing[0]].1, c_pkt, c_alloc, s_pkt, s_alloc));
        }
    }
    if !finished && !w.panicked && w.violations.is_empty() {
        w.c.inc("ep_ideal_unfinished");
    }
    let nontrivial = finished && (sent_c + sent_s) >= 100;
    w.finish();
    if send_faults_on(&w) {
        // a send the operating system refused is not a fault of the network, but the packet it
        // carried is gone all the same: the "ideal network" clauses (C05, C02, C06 pair, C07
        // completion) have lost their premise; the byte accounting, crash, payload and heap
        // verdicts have not
        w.violations.retain(|v| matches!(v.prop, "C03" | "C13" | "C14" | "C01" | "C19"));
    }
    world_out(out, &mut w, nontrivial, mix(seed, (c_alloc ^ s_alloc << 20) as u64), None);
}

/// C19: applications that stop reading the event iterator early. Once connected, every step's
/// iterator is read for 0..3 events only and dropped; payloads of unread Receive events belong to
/// the library and must be released by it. Only the teardown / layout checks of the wrapper and
/// crashes are judged here (the other monitors need the events the application skipped).
pub fn run_ep_partial_read(seed: u64, params: &Params, out: &mut ScnOut) {
    let mut rng = Rng::new(seed);
    let verbose = params.flag("verbose");
    let mut w = World::new(seed, NetCfg::ideal(*rng.pick(&[0u64, 5, 40])), verbose);
    let scfg = uflow::server::Config { max_total_connections: 4, max_active_connections: 4, enable_handshake_errors: true, endpoint_config: ep_cfg(&mut rng) };
    w.bind_server(scfg, cadence(&mut rng));
    let n = rng.range(1, 2) as usize;
    let mut idx = Vec::new();
    for k in 0..n {
        let mut c = ep_cfg(&mut rng);
        c.max_packet_size = c.max_packet_size.min(100_000);
        if let Some(i) = w.connect_client(c, client_addr(k), cadence(&mut rng), None) {
            idx.push(i);
        }
    }
    let horizon = rng.range(3, 12) * SEC;
    let partial_p = *rng.pick(&[0.3, 0.7, 1.0]);
    let mut guard = 0;
    while w.now_ns <= horizon && !w.panicked {
        guard += 1;
        if guard > 500_000 {
            break;
        }
        let all_up = idx.iter().all(|&i| w.clients[i].state >= 1) && idx.iter().all(|&i| w.server.conn_state.get(&w.clients[i].addr).map_or(false, |s| *s >= 1));
        w.take_limit = if all_up && rng.chance(partial_p) { Some(rng.below(3) as usize) } else { None };
        if w.take_limit.is_some() {
            w.c.inc("partial_reads");
        }
        let who = match w.step_next() {
            Some(x) => x,
            None => break,
        };
        w.take_limit = None;
        if all_up && rng.chance(0.6) {
            for _ in 0..rng.range(1, 8) {
                let l = rng.log_range(12, 5000) as usize;
                match who {
                    Some(i) => {
                        w.client_send(i, l.min(2000), rng.below(8) as usize, rng.range(1, 3) as u8);
                    }
                    None => {
                        let a = w.clients[*rng.pick(&idx)].addr;
                        w.server_send(a, l.min(2000), rng.below(8) as usize, rng.range(1, 3) as u8);
                    }
                }
            }
        }
    }
    let partial = w.c.get("partial_reads");
    w.finish();
    w.violations.retain(|v| v.prop == "C03" || v.prop == "C19");
    world_out(out, &mut w, partial >= 10, mix(seed, partial as u64), None);
}

/// Any protocol version byte but ours: the eight one-bit neighbours of 3 (2, 1, 7, 11, 19, 35, 67,
/// 131) as often as all other values together.
fn foreign_version(rng: &mut Rng) -> u8 {
    if rng.chance(0.5) {
        3 ^ (1u8 << rng.below(8))
    } else {
        let v = rng.below(255) as u8;
        if v >= 3 { v + 1 } else { v }
    }
}

pub fn run_family(family: &str, scn_seed: u64, _idx: u64, params: &Params, out: &mut ScnOut) -> bool {
    // C19 at endpoint level: whatever was allocated inside calls into uflow (Client, Server,
    // RemoteClient handles, events, payloads, datagrams) is gone again once every endpoint and the
    // whole world have been dropped
    let heap0 = crate::alloc::live_bytes(crate::alloc::TAG_UFLOW);
    let n_viol = out.violations.len();
    let ok = run_family_inner(family, scn_seed, params, out);
    if ok && crate::checkalloc_active() && !out.violations[n_viol..].iter().any(|v| v.prop == "C03") {
        let live = crate::alloc::live_bytes(crate::alloc::TAG_UFLOW) - heap0;
        out.counters.inc("endpoint_teardowns_checked");
        if live != 0 {
            out.violations.push(Violation::new("C19", "leak-on-teardown", "C19:leak-on-teardown:endpoints", format!("{} bytes allocated inside calls into uflow are still live after every Client, the Server and all handles, events and datagrams of a {} scenario were dropped", live, family)));
        }
        let (n, v) = crate::alloc::take_violations();
        if n > 0 {
            if v[0].kind == 2 {
                out.violations.push(Violation::new("C19", "double-free", "C19:double-free:endpoints", format!("{} allocator-contract violations in a {} scenario; first: a block of size {} align {} was released that is not live (released before, or never obtained from the allocator)", n, family, v[0].free_size, v[0].free_align)));
            } else {
                out.violations.push(Violation::new("C19", "layout-mismatch", "C19:layout-mismatch:endpoints", format!("{} allocator-contract violations in a {} scenario; first: freed with size {} align {}, allocated with size {} align {}", n, family, v[0].free_size, v[0].free_align, v[0].alloc_size, v[0].alloc_align)));
            }
        }
    }
    ok
}

fn run_family_inner(family: &str, scn_seed: u64, params: &Params, out: &mut ScnOut) -> bool {
    match family {
        "lifecycle" => run_lifecycle(scn_seed, params, out),
        "handshake" => run_handshake(scn_seed, params, out),
        "handshake-mismatch" => run_handshake_mismatch(scn_seed, params, out),
        "timers" => run_timers(scn_seed, params, out),
        "ep-recover" => run_ep_recover(scn_seed, params, out),
        "disconnect" => run_disconnect(scn_seed, params, out),
        "limits" => run_limits(scn_seed, params, out),
        "amplify" => run_amplify(scn_seed, params, out),
        "ep-hostile" => run_ep_hostile(scn_seed, params, out),
        "ep-ideal" => run_ep_ideal(scn_seed, params, out),
        "ep-partial-read" => run_ep_partial_read(scn_seed, params, out),
        _ => return false,
    }
    true
}

// =============================================================================================
// C10: timeouts

/// Times at which `steps` (sorted) read a frame of the connection: each delivery is read at the
/// first step at or after it was put into the socket.
fn read_steps(steps: &[u64], deliveries: &[u64]) -> Vec<u64> {
    let mut out = Vec::new();
    for &d in deliveries {
        let i = steps.partition_point(|&s| s < d);
        if i < steps.len() {
            out.push(steps[i]);
        }
    }
    out.sort();
    out.dedup();
    out
}

/// Times at which the endpoint at `dst` took a frame of the connection (from `src`, of a kind
/// `pick` accepts) out of its socket, as observed (sorted, without repeats).
fn observed_reads(w: &World, src: SocketAddr, dst: SocketAddr, pick: &dyn Fn(&Option<RFrame>) -> bool) -> Vec<u64> {
    let mut out: Vec<u64> = w.delivered.iter().filter(|d| d.dst == dst && d.src == src && pick(&d.frame)).filter_map(|d| d.read_ns).collect();
    out.sort();
    out.dedup();
    out
}

/// Active-timeout oracle for one endpoint of one connection.
/// `up_from`: step time of Connect; `end`: (time, was Error(Timeout)) of the terminal event, if any;
/// `watch_until`: time until which the endpoint stayed in the active state under observation.
fn check_active_timeout(w: &mut World, who: &str, steps: &[u64], reads: &[u64], up_from: u64, end: Option<(u64, bool)>, watch_until: u64, timeout_ms: u64) {
    // configured values up to 2^64-1 ("never") are legal: saturate instead of overflowing
    let timeout = timeout_ms.saturating_mul(MS);
    let mut r = up_from;
    let mut ri = 0;
    let start = steps.partition_point(|&s| s < up_from);
    for &t in &steps[start..] {
        if t > watch_until {
            break;
        }
        while ri < reads.len() && reads[ri] <= t {
            if reads[ri] >= up_from {
                r = r.max(reads[ri]);
            }
            ri += 1;
        }
        let silence = t - r;
        let ended_here = end.map_or(false, |(te, _)| te == t);
        let timed_out_here = end.map_or(false, |(te, is_to)| te == t && is_to);
        if timed_out_here {
            w.c.inc("c10_timeouts_checked");
            // the endpoints keep time in whole milliseconds of their own clock: 1 ms of slack
            if silence + MS < timeout {
                w.viol("C10", "timeout-too-early", format!("{} reported Error(Timeout) at t={} ms although it last read a frame of the connection at t={} ms ({} ms of silence, active_timeout_ms = {})", who, t / MS, r / MS, silence / MS, timeout_ms));
            }
            return;
        }
        if ended_here {
            return;
        }
        if silence >= timeout.saturating_add(MS) {
            w.c.inc("c10_timeouts_checked");
            w.viol("C10", "timeout-not-reported", format!("{} did not report Error(Timeout) at its step at t={} ms although it last read a frame at t={} ms ({} ms of silence >= active_timeout_ms = {})", who, t / MS, r / MS, silence / MS, timeout_ms));
            return;
        }
    }
}

/// C10, successor connections: a connection from an address that had an earlier one (established,
/// used, ended by the server or by the client, forgotten or still remembered by the server). The
/// second connection exchanges a few packets and then idles for 40..120 s on a loss-free network
/// with keepalive on both sides; both ends are judged by the active-timeout model (a timeout needs
/// `active_timeout_ms` without a frame READ, and with keepalive none may occur at all).
fn run_timers_successor(seed: u64, params: &Params, out: &mut ScnOut) {
    let mut rng = Rng::new(seed ^ 0x5cc5);
    let verbose = params.flag("verbose");
    let latency = *rng.pick(&[0u64, 1, 10, 50]);
    let mut w = World::new(seed, NetCfg::ideal(latency), verbose);
    let timeout = *rng.pick(&[5_000u64, 10_000, 20_000]);
    let mk = |_r: &mut Rng| uflow::EndpointConfig { keepalive: true, keepalive_interval_ms: 2000, active_timeout_ms: timeout, ..Default::default() };
    let (ccfg, scfg_ep) = (mk(&mut rng), mk(&mut rng));
    let scfg = uflow::server::Config { max_total_connections: 8, max_active_connections: 8, enable_handshake_errors: rng.chance(0.5), endpoint_config: scfg_ep.clone() };
    let cad = |rng: &mut Rng| -> (u64, u64) { *rng.pick(&[(MS, MS), (10 * MS, 10 * MS), (33 * MS, 33 * MS), (100 * MS, 100 * MS)]) };
    w.bind_server(scfg, cad(&mut rng));
    let addr = client_addr(0);
    let srv = w.server.addr;
    let run_for = |w: &mut World, d: u64| {
        let until = w.now_ns + d;
        while w.now_ns < until && !w.panicked {
            if w.step_next().is_none() {
                w.now_ns = until;
            }
        }
    };
    // a second, unrelated client may be talking all the while (or nobody else at all)
    let bystander = rng.chance(0.5);
    if bystander {
        w.connect_client(ccfg.clone(), client_addr(1), cad(&mut rng), None);
    }
    // 1..3 predecessors
    let n_pre = rng.range(1, 4);
    for _ in 0..n_pre {
        let p = match w.connect_client(ccfg.clone(), addr, cad(&mut rng), None) {
            Some(p) => p,
            None => break,
        };
        run_for(&mut w, rng.range(300, 1500) * MS);
        for _ in 0..rng.range(1, 6) {
            w.client_send(p, rng.range(12, 600) as usize, rng.below(64) as usize, rng.below(4) as u8);
            w.server_send(addr, rng.range(12, 600) as usize, rng.below(64) as usize, rng.below(4) as u8);
        }
        run_for(&mut w, rng.range(100, 1500) * MS);
        let by_server = rng.chance(0.6);
        if by_server {
            w.server_disconnect(addr, rng.chance(0.7));
        } else {
            w.client_disconnect(p, rng.chance(0.7));
        }
        run_for(&mut w, rng.range(300, 2500) * MS);
        w.drop_client(p);
        // the server forgets a connection it closed itself with the acknowledgement; one the
        // client closed is remembered for 20 s (new SYNs are ignored meanwhile)
        run_for(&mut w, if by_server { rng.range(0, 3000) } else { *rng.pick(&[100u64, 5000, 21_000, 25_000]) } * MS);
    }
    let ci = match w.connect_client(ccfg.clone(), addr, cad(&mut rng), None) {
        Some(i) => i,
        None => {
            w.finish();
            world_out(out, &mut w, false, 0, None);
            return;
        }
    };
    let t_main = w.now_ns;
    run_for(&mut w, 25 * SEC);
    let up = w.clients[ci].state == 1 && w.server.conn_state.get(&addr) == Some(&1);
    if up {
        for _ in 0..rng.range(1, 5) {
            w.client_send(ci, rng.range(12, 600) as usize, 0, 3);
            w.server_send(addr, rng.range(12, 600) as usize, 0, 3);
        }
    }
    run_for(&mut w, rng.range(40, 120) * SEC);
    let t_end = w.now_ns;
    w.c.inc("c10_successor_sessions");
    if up {
        let conn_frames = |f: &Option<RFrame>| matches!(f, Some(RFrame::Data { .. }) | Some(RFrame::Acks { .. }) | Some(RFrame::Sync { .. }));
        // client side
        {
            let steps = w.clients[ci].step_times.clone();
            let reads: Vec<u64> = observed_reads(&w, srv, addr, &conn_frames).into_iter().filter(|&t| t >= t_main).collect();
            let evs = w.clients[ci].events.clone();
            if let Some(c) = evs.iter().find(|e| e.ev == Ev::Connect) {
                let term = evs.iter().find(|e| matches!(e.ev, Ev::Disconnect | Ev::Error(_))).map(|e| (e.t_ns, e.ev == Ev::Error("timeout")));
                check_active_timeout(&mut w, "client (successor connection)", &steps, &reads, c.t_ns, term, t_end, ccfg.active_timeout_ms);
                if let Some((t, _)) = term {
                    w.viol("C10", "idle-connection-timed-out-despite-keepalive", format!("successor connection of {}: the client's connection ended at t={} ms ({} ms after it was established) on a loss-free network with keepalive every 2 s on both sides and active_timeout_ms = {}", addr, t / MS, (t - c.t_ns) / MS, timeout));
                }
            }
        }
        // server side: events of the address since the main client object exists
        {
            let steps = w.server.step_times.clone();
            let reads: Vec<u64> = observed_reads(&w, addr, srv, &conn_frames).into_iter().filter(|&t| t >= t_main).collect();
            let evs: Vec<EvRec> = w.server.events.iter().filter(|(a, e)| *a == addr && e.t_ns >= t_main).map(|(_, e)| e.clone()).collect();
            if let Some(c) = evs.iter().find(|e| e.ev == Ev::Connect) {
                let term = evs.iter().find(|e| e.t_ns >= c.t_ns && matches!(e.ev, Ev::Disconnect | Ev::Error(_))).map(|e| (e.t_ns, e.ev == Ev::Error("timeout")));
                check_active_timeout(&mut w, "server (successor connection)", &steps, &reads, c.t_ns, term, t_end, scfg_ep.active_timeout_ms);
                if let Some((t, _)) = term {
                    w.viol("C10", "idle-connection-timed-out-despite-keepalive", format!("successor connection of {}: the server's connection ended at t={} ms ({} ms after it was established) on a loss-free network with keepalive every 2 s on both sides and active_timeout_ms = {}", addr, t / MS, (t - c.t_ns) / MS, timeout));
                }
            }
        }
        w.c.inc("c10_successor_connections_checked");
    }
    w.finish();
    world_out(out, &mut w, up, mix(seed, n_pre), None);
}

pub fn run_timers(seed: u64, params: &Params, out: &mut ScnOut) {
    if !params.flag("send_errors") && !params.flag("recv_errors") && Rng::new(seed ^ 0x5cc4).chance(0.08) {
        return run_timers_successor(seed, params, out);
    }
    let mut rng = Rng::new(seed);
    let verbose = params.flag("verbose");
    // one scenario in seven is the plain case the keepalive clause is about: a short exchange in
    // both directions, then a long idle period on a loss-free network with keepalive on both sides
    let idle_focus = Rng::new(seed ^ 0x1d1e).chance(0.15);
    let latency = if idle_focus { *rng.pick(&[0u64, 1, 10, 50]) } else { *rng.pick(&[0u64, 1, 10, 50, 200]) };
    let mut net = NetCfg::ideal(latency);
    // handshake duration: SYN or SYN-ACK lost 0..11 times
    let lose_syn = if rng.chance(0.4) { rng.range(0, 11) as u32 } else { 0 };
    let lose_synack = if rng.chance(0.4) { rng.range(0, 11) as u32 } else { 0 };
    let lose_ack = if rng.chance(0.2) { rng.range(0, 4) as u32 } else { 0 };
    if lose_syn > 0 {
        net.drop_rules.push(DropRule { from: None, to: None, frame_type: "syn", remaining: lose_syn });
    }
    if lose_synack > 0 {
        net.drop_rules.push(DropRule { from: None, to: None, frame_type: "synack", remaining: lose_synack });
    }
    if lose_ack > 0 {
        net.drop_rules.push(DropRule { from: None, to: None, frame_type: "ack", remaining: lose_ack });
    }
    // a blackout (both directions) begins some time after the handshake could have finished
    let blackout_from = rng.range(1, 60) * SEC + rng.below(SEC);
    let blackout = rng.chance(0.6) && !idle_focus;
    let horizon = blackout_from + if idle_focus { rng.range(60, 200) } else { rng.range(5, 150) } * SEC;
    if blackout {
        net.phases.push(NetPhase { until_ns: blackout_from, loss: 0.0, dup: 0.0, delay_p: 0.0, delay_max_ms: 0, blackout_to_server: false, blackout_to_clients: false });
        let one_way = rng.below(3);
        net.phases.push(NetPhase { until_ns: horizon + SEC, loss: 0.0, dup: 0.0, delay_p: 0.0, delay_max_ms: 0, blackout_to_server: one_way != 1, blackout_to_clients: one_way != 2 });
    }
    let mut w = World::new(seed, net, verbose);
    maybe_send_faults(&mut w, seed, params, 40 * SEC);
    let timeouts = [1000u64, 2000, 3000, 5000, 10_000, 20_000, 60_000, 120_000];
    // "never": the largest values the field can hold are legal configurations (nothing in
    // `is_valid` or the documentation excludes them) and mean that no silence is long enough
    let never = [u64::MAX, u64::MAX - 1, u64::MAX - 19_999, 1u64 << 63, (1u64 << 63) - 1, u64::MAX / 1_000_000, u64::MAX / 1000];
    let mut ext_rng = Rng::new(seed ^ 0x7e0e);
    let mut scfg_ep = ep_cfg(&mut rng);
    scfg_ep.active_timeout_ms = *rng.pick(&timeouts);
    scfg_ep.keepalive = rng.chance(0.6);
    scfg_ep.keepalive_interval_ms = *rng.pick(&[500u64, 2000, 5000, 30_000]);
    let mut ccfg = ep_cfg(&mut rng);
    ccfg.active_timeout_ms = *rng.pick(&timeouts);
    ccfg.keepalive = rng.chance(0.6);
    ccfg.keepalive_interval_ms = *rng.pick(&[500u64, 2000, 5000, 30_000]);
    ccfg.max_packet_size = ccfg.max_packet_size.min(scfg_ep.max_receive_alloc);
    ccfg.max_receive_alloc = ccfg.max_receive_alloc.max(scfg_ep.max_packet_size);
    let extreme = !idle_focus && ext_rng.chance(0.08);
    if extreme {
        w.c.inc("c10_never_timeout_configurations");
        match ext_rng.below(3) {
            0 => scfg_ep.active_timeout_ms = *ext_rng.pick(&never),
            1 => ccfg.active_timeout_ms = *ext_rng.pick(&never),
            _ => {
                scfg_ep.active_timeout_ms = *ext_rng.pick(&never);
                ccfg.active_timeout_ms = *ext_rng.pick(&never);
            }
        }
        if ext_rng.chance(0.3) {
            scfg_ep.keepalive_interval_ms = *ext_rng.pick(&never);
            ccfg.keepalive_interval_ms = *ext_rng.pick(&never);
        }
    }
    if idle_focus {
        // keepalive on both sides, or on one side only (its keepalives are answered, which keeps
        // both ends supplied with frames)
        let pattern = rng.below(4);
        for (k, c) in [&mut scfg_ep, &mut ccfg].into_iter().enumerate() {
            c.keepalive = pattern < 2 || pattern as usize == 2 + k;
            c.keepalive_interval_ms = *rng.pick(&[500u64, 2000, 5000]);
            c.active_timeout_ms = *rng.pick(&[10_000u64, 20_000, 60_000]);
        }
    }
    let cad = |rng: &mut Rng| -> (u64, u64) {
        match if idle_focus { *rng.pick(&[0u64, 1, 2, 5]) } else { rng.below(6) } {
            0 => (MS, MS),
            1 => (10 * MS, 10 * MS),
            2 => (100 * MS, 100 * MS),
            3 => (SEC, SEC),
            4 => (3 * MS, 400 * MS),
            _ => (33 * MS, 33 * MS),
        }
    };
    let scfg = uflow::server::Config { max_total_connections: 8, max_active_connections: 8, enable_handshake_errors: true, endpoint_config: scfg_ep.clone() };
    w.bind_server(scfg, cad(&mut rng));
    let ci = match w.connect_client(ccfg.clone(), client_addr(0), cad(&mut rng), None) {
        Some(i) => i,
        None => {
            w.finish();
            world_out(out, &mut w, false, 0, None);
            return;
        }
    };
    let busy_until = if idle_focus { rng.range(1, 6) * SEC } else { rng.range(0, blackout_from / SEC) * SEC };
    // disconnect attempt: one side calls disconnect some time after ITS Connect event (also within
    // the 2 s in which a handshake resend timer may still be pending) and the first k of its
    // Disconnect requests (or all of them) are lost
    let disc_attempt = rng.chance(0.4) && !idle_focus;
    let disc_by_client = rng.chance(0.5);
    let disc_delay = *rng.pick(&[0u64, 50, 500, 1500, 1900, 3000, 10_000]) * MS;
    let disc_lost = *rng.pick(&[0u32, 1, 3, 9, 10, 11, 1000, 1000]);
    let disc_now = rng.chance(0.6);
    let disc_peer_dies = Rng::new(seed ^ 0xd1e5).chance(0.35);
    let mut disc_called = false;
    let mut stall_rng = Rng::new(seed ^ 0x57a1);
    let stall_after_request = stall_rng.chance(0.4);
    let mut stalled = false;
    let mut guard = 0;
    let mut probe_last = u64::MAX;
    let mut max_rto_client = 0u64;
    let mut max_rto_server = 0u64;
    while w.now_ns <= horizon && !w.panicked {
        guard += 1;
        if guard > 3_000_000 {
            break;
        }
        let who = match w.step_next() {
            Some(x) => x,
            None => break,
        };
        // the pace of keepalives is max(interval, 2 s, RTO) by documentation: remember the largest
        // RTO each sender has had (read-only accessor) for the keepalive clause's domain
        if let Some(hc) = w.clients[ci].client.as_ref().and_then(|c| c.verif_half_connection()) {
            max_rto_client = max_rto_client.max(hc.verif_rto_ms().unwrap_or(0));
        }
        if let Some(r) = w.server.server.as_ref().and_then(|s| s.client(&client_addr(0))).and_then(|rc| rc.borrow().verif_half_connection().map(|hc| hc.verif_rto_ms().unwrap_or(0))) {
            max_rto_server = max_rto_server.max(r);
        }
        if verbose && w.now_ns / (2 * SEC) != probe_last {
            probe_last = w.now_ns / (2 * SEC);
            if let Some(hc) = w.clients[ci].client.as_ref().and_then(|c| c.verif_half_connection()) {
                eprintln!("PROBE t={} client rate {} rtt {:?} rto {:?} credit {} queues {:?} sbs {}", w.now_ns / MS, hc.verif_send_rate(), hc.rtt_s(), hc.verif_rto_ms(), hc.verif_flush_alloc(), hc.verif_queue_lens(), hc.send_buffer_size());
            }
        }
        if disc_attempt && !disc_called {
            let a = client_addr(0);
            let conn_t = if disc_by_client { w.clients[ci].events.iter().find(|e| e.ev == Ev::Connect).map(|e| e.t_ns) } else { w.server.events.iter().find(|(x, e)| *x == a && e.ev == Ev::Connect).map(|(_, e)| e.t_ns) };
            let my_turn = if disc_by_client { who == Some(ci) } else { who == None };
            if let Some(t) = conn_t {
                if my_turn && w.now_ns >= t + disc_delay {
                    disc_called = true;
                    if disc_lost > 0 {
                        let (from, to) = if disc_by_client { (a, w.server.addr) } else { (w.server.addr, a) };
                        w.net.drop_rules.push(DropRule { from: Some(from), to: Some(to), frame_type: "disconnect", remaining: disc_lost });
                    }
                    if disc_peer_dies {
                        // the peer falls silent for good at this very moment, with data of the
                        // caller still unacknowledged: whatever kind of disconnect was asked for,
                        // the caller has to end with a timeout of one sort or the other
                        let (peer, me) = if disc_by_client { (w.server.addr, a) } else { (a, w.server.addr) };
                        for ft in ["data", "acks", "sync", "disconnect", "disconnectack", "synack", "ack"] {
                            w.net.drop_rules.push(DropRule { from: Some(peer), to: Some(me), frame_type: ft, remaining: 1_000_000 });
                        }
                        for _ in 0..3 {
                            if disc_by_client {
                                w.client_send(ci, 100, 0, 3);
                            } else {
                                w.server_send(a, 100, 0, 3);
                            }
                        }
                    }
                    if disc_by_client {
                        w.client_disconnect(ci, disc_now);
                    } else {
                        w.server_disconnect(a, disc_now);
                    }
                }
            }
        }
        // an application that stalls at the worst moment: right after the first of its requests
        // that the network lets through has left, the caller is not stepped for 2..6 s — the answer
        // waits in its socket while its resend and give-up deadlines pass
        if disc_called && stall_after_request && !stalled && disc_lost < 12 {
            let a = client_addr(0);
            let (from, to) = if disc_by_client { (a, w.server.addr) } else { (w.server.addr, a) };
            let sent = w.wire.iter().filter(|r| r.src == from && r.dst == to && !r.injected && matches!(r.frame, Some(RFrame::Disconnect))).count() as u32;
            if sent > disc_lost {
                stalled = true;
                let pause = stall_rng.range(2050, 6000) * MS;
                if disc_by_client {
                    w.clients[ci].next_step_ns = w.clients[ci].next_step_ns.max(w.now_ns + pause);
                } else {
                    w.server.next_step_ns = w.server.next_step_ns.max(w.now_ns + pause);
                }
                w.c.inc("c10_caller_stalled_after_request");
            }
        }
        // traffic while busy
        if w.now_ns < busy_until && !disc_called {
            match who {
                Some(i) if w.clients[i].state == 1 && rng.chance(0.3) => {
                    w.client_send(i, rng.range(12, 400) as usize, 0, rng.below(4) as u8);
                }
                None if rng.chance(0.3) => {
                    let a = client_addr(0);
                    if w.server.conn_state.get(&a) == Some(&1) {
                        w.server_send(a, rng.range(12, 400) as usize, 0, rng.below(4) as u8);
                    }
                }
                _ => {}
            }
        }
    }
    let t_end = w.now_ns;
    let addr = client_addr(0);
    let srv = w.server.addr;
    // ---- active timeouts, both ends
    let conn_frames = |f: &Option<RFrame>| matches!(f, Some(RFrame::Data { .. }) | Some(RFrame::Acks { .. }) | Some(RFrame::Sync { .. }));
    {
        let steps = w.clients[ci].step_times.clone();
        let dl: Vec<u64> = w.delivered.iter().filter(|d| d.dst == addr && d.src == srv && conn_frames(&d.frame)).map(|d| d.t_ns).collect();
        let inferred = read_steps(&steps, &dl);
        // observed: when the endpoint took each frame out of its socket (a failing receive call
        // leaves the rest of the queue for a later step)
        let reads = observed_reads(&w, srv, addr, &conn_frames);
        if inferred != reads {
            w.c.inc("c10_read_times_differ_from_first_step_after_delivery");
        }
        let evs = w.clients[ci].events.clone();
        if let Some(c) = evs.iter().find(|e| e.ev == Ev::Connect) {
            // the active timeout is judged up to the endpoint's own disconnect call (after it the
            // disconnect retry budget below applies)
            // the active timeout is judged until the endpoint's own Disconnect request is on the
            // wire (after it the disconnect retry budget below applies); a graceful disconnect()
            // that is still waiting for its send queue to drain leaves the connection active
            let own_req = w.wire.iter().find(|r| !r.injected && r.src == addr && r.dst == srv && r.t_ns >= c.t_ns && matches!(r.frame, Some(RFrame::Disconnect))).map(|r| (r.t_ns, false));
            let term = evs.iter().find(|e| matches!(e.ev, Ev::Disconnect | Ev::Error(_))).map(|e| (e.t_ns, e.ev == Ev::Error("timeout")));
            let end = match (term, own_req) {
                (Some(a), Some(b)) => Some(if b.0 < a.0 { b } else { a }),
                (a, b) => a.or(b),
            };
            check_active_timeout(&mut w, "client", &steps, &reads, c.t_ns, end, t_end, ccfg.active_timeout_ms);
        }
    }
    {
        let steps = w.server.step_times.clone();
        let dl: Vec<u64> = w.delivered.iter().filter(|d| d.dst == srv && d.src == addr && conn_frames(&d.frame)).map(|d| d.t_ns).collect();
        let inferred = read_steps(&steps, &dl);
        let reads = observed_reads(&w, addr, srv, &conn_frames);
        if inferred != reads {
            w.c.inc("c10_read_times_differ_from_first_step_after_delivery");
        }
        let evs: Vec<EvRec> = w.server.events.iter().filter(|(a, _)| *a == addr).map(|(_, e)| e.clone()).collect();
        if let Some(c) = evs.iter().find(|e| e.ev == Ev::Connect) {
            let own_req = w.wire.iter().find(|r| !r.injected && r.src == srv && r.dst == addr && r.t_ns >= c.t_ns && matches!(r.frame, Some(RFrame::Disconnect))).map(|r| (r.t_ns, false));
            let term = evs.iter().find(|e| e.t_ns >= c.t_ns && matches!(e.ev, Ev::Disconnect | Ev::Error(_))).map(|e| (e.t_ns, e.ev == Ev::Error("timeout")));
            let end = match (term, own_req) {
                (Some(a), Some(b)) => Some(if b.0 < a.0 { b } else { a }),
                (a, b) => a.or(b),
            };
            check_active_timeout(&mut w, "server", &steps, &reads, c.t_ns, end, t_end, scfg_ep.active_timeout_ms);
        }
    }
    // ---- handshake retry budget (client): 10 resends 2 s apart, then Error(Timeout), not before
    {
        let evs = w.clients[ci].events.clone();
        let connected = evs.iter().any(|e| e.ev == Ev::Connect);
        let created = w.clients[ci].created_ns;
        let gap = w.clients[ci].max_step_gap_ns;
        let syns: Vec<u64> = w.wire.iter().filter(|r| r.src == addr && matches!(r.frame, Some(RFrame::Syn { .. }))).map(|r| r.t_ns).collect();
        if !connected {
            let to = evs.iter().find(|e| e.ev == Ev::Error("timeout"));
            let other_error = evs.iter().any(|e| matches!(e.ev, Ev::Error(x) if x != "timeout"));
            if let Some(e) = to {
                w.c.inc("c10_handshake_timeouts_checked");
                if syns.len() != 11 || e.t_ns < created + 22 * SEC {
                    w.viol("C10", "handshake-timeout-before-budget", format!("client gave up the handshake at t={} ms after sending {} SYNs (expected the first plus 10 resends, 2 s apart: not before 22000 ms)", (e.t_ns - created) / MS, syns.len()));
                }
                if e.t_ns > created + 22 * SEC + 12 * gap + SEC {
                    w.viol("C10", "handshake-timeout-late", format!("client gave up the handshake only at t={} ms (budget 22000 ms + 12 step intervals of at most {} ms)", (e.t_ns - created) / MS, gap / MS));
                }
            } else if !other_error && t_end > created + 22 * SEC + 12 * gap + SEC {
                w.viol("C10", "handshake-timeout-missing", format!("client neither connected nor reported Error(Timeout) by t={} ms", (t_end - created) / MS));
            }
        }
        // (spacing is judged on what was really transmitted; the budget above counts attempts)
        let syns_tx: Vec<u64> = w.wire.iter().filter(|r| !r.refused && r.src == addr && matches!(r.frame, Some(RFrame::Syn { .. }))).map(|r| r.t_ns).collect();
        for p in syns_tx.windows(2) {
            if p[1] - p[0] + MS < 2 * SEC {
                w.viol("C10", "handshake-resend-too-fast", format!("client resent its SYN after {} ms (< 2000)", (p[1] - p[0]) / MS));
            }
        }
    }
    // ---- handshake retry budget (server, reported because enable_handshake_errors is on)
    {
        let evs: Vec<EvRec> = w.server.events.iter().filter(|(a, _)| *a == addr).map(|(_, e)| e.clone()).collect();
        if let Some(e) = evs.iter().find(|e| e.ev == Ev::Error("timeout")) {
            let connected_before = evs.iter().any(|x| x.ev == Ev::Connect && x.t_ns <= e.t_ns);
            if !connected_before {
                let first_synack = w.wire.iter().filter(|r| r.src == srv && r.dst == addr && r.t_ns <= e.t_ns && matches!(r.frame, Some(RFrame::SynAck { .. }))).map(|r| r.t_ns).min();
                let n = w.wire.iter().filter(|r| r.src == srv && r.dst == addr && r.t_ns <= e.t_ns && matches!(r.frame, Some(RFrame::SynAck { .. }))).count();
                // several pending entries may have existed in a row; judge the last one only
                let synacks: Vec<u64> = w.wire.iter().filter(|r| r.src == srv && r.dst == addr && r.t_ns <= e.t_ns && matches!(r.frame, Some(RFrame::SynAck { .. }))).map(|r| r.t_ns).collect();
                let _ = (first_synack, n);
                w.c.inc("c10_handshake_timeouts_checked");
                if synacks.len() >= 1 {
                    let last11: Vec<u64> = synacks.iter().rev().take(11).cloned().collect();
                    let first_of_entry = *last11.last().unwrap();
                    if last11.len() < 11 || e.t_ns < first_of_entry + 22 * SEC {
                        w.viol("C10", "server-handshake-timeout-before-budget", format!("server gave up a pending handshake at t={} ms after {} SYN-ACKs, the first of them at t={} ms (expected 11 spanning >= 22000 ms)", e.t_ns / MS, last11.len(), first_of_entry / MS));
                    }
                }
            }
        }
    }
    // ---- disconnect retry budget: the request is repeated every 2 s, 10 times, then Error(Timeout)
    if disc_called {
        let (from, to) = if disc_by_client { (addr, srv) } else { (srv, addr) };
        let evs: Vec<EvRec> = if disc_by_client { w.clients[ci].events.clone() } else { w.server.events.iter().filter(|(a, _)| *a == addr).map(|(_, e)| e.clone()).collect() };
        let gap = if disc_by_client { w.clients[ci].max_step_gap_ns } else { w.server.max_step_gap_ns };
        let call = evs.iter().find(|e| matches!(e.ev, Ev::AppDisconnect | Ev::AppDisconnectNow)).cloned();
        // attempts (a send the operating system refused is an attempt: it uses up a resend) ...
        let reqs: Vec<u64> = w.wire.iter().filter(|r| !r.injected && r.src == from && r.dst == to && matches!(r.frame, Some(RFrame::Disconnect))).map(|r| r.t_ns).collect();
        // ... and what was really transmitted (spacing, count and lateness are judged on these)
        let reqs_tx: Vec<u64> = w.wire.iter().filter(|r| !r.injected && !r.refused && r.src == from && r.dst == to && matches!(r.frame, Some(RFrame::Disconnect))).map(|r| r.t_ns).collect();
        if let (Some(call), Some(&t0)) = (call, reqs.first()) {
            w.c.inc("c10_disconnect_attempts_checked");
            let who = if disc_by_client { "client" } else { "server" };
            let t0_tx = reqs_tx.first().copied().unwrap_or(u64::MAX / 4);
            for p in reqs_tx.windows(2) {
                if p[1] - p[0] + MS < 2 * SEC {
                    w.viol("C10", "disconnect-resend-too-fast", format!("{} repeated its Disconnect request after {} ms (< 2000): requests at {:?} ms", who, (p[1] - p[0]) / MS, reqs.iter().map(|t| t / MS).collect::<Vec<_>>()));
                    break;
                }
            }
            if reqs_tx.len() > 11 {
                w.viol("C10", "disconnect-resent-too-often", format!("{} sent {} Disconnect requests (the first plus at most 10 resends)", who, reqs_tx.len()));
            }
            let end = evs.iter().find(|e| (e.t_ns, e.step_no) >= (call.t_ns, call.step_no) && matches!(e.ev, Ev::Disconnect | Ev::Error(_)));
            match end {
                Some(e) if e.ev == Ev::Error("timeout") => {
                    w.c.inc("c10_disconnect_timeouts_checked");
                    if reqs.len() != 11 || e.t_ns + MS < t0 + 22 * SEC {
                        w.viol("C10", "disconnect-timeout-before-budget", format!("{} gave up its disconnect attempt with Error(Timeout) at t={} ms, {} ms after its first request, having sent {} requests (budget: the first plus 10 resends 2 s apart = not before 22000 ms); disconnect called {} ms after Connect, {} SYN-ACKs had been lost", who, e.t_ns / MS, (e.t_ns - t0) / MS, reqs.len(), disc_delay / MS, lose_synack));
                    }
                    if e.t_ns > t0_tx.saturating_add(22 * SEC + 12 * gap + SEC) {
                        w.viol("C10", "disconnect-timeout-late", format!("{} gave up its disconnect attempt only {} ms after its first request (budget 22000 ms + 12 step intervals of at most {} ms)", who, (e.t_ns - t0) / MS, gap / MS));
                    }
                }
                Some(_) => {}
                None => {
                    // (judged at the caller's own last step: an application that is stalled when
                    // the session ends has not had the step in which it would report the outcome)
                    let t_end = if disc_by_client { w.clients[ci].last_step_ns } else { w.server.last_step_ns };
                    if t_end > t0_tx.saturating_add(22 * SEC + 12 * gap + SEC) {
                        w.viol("C10", "disconnect-timeout-missing", format!("{} has no terminal event {} ms after its first Disconnect request", who, (t_end - t0) / MS));
                    }
                }
            }
        }
    }
    // ---- keepalive: an idle connection on a loss-free network never times out (lost handshake
    // ACKs leave the client established long before the server is: not loss-free)
    if !blackout && !disc_called && lose_ack == 0 && w.send_faults.is_none() {
        let step_max = w.clients[ci].max_step_gap_ns.max(w.server.max_step_gap_ns) / MS;
        // A keepalive is a sync frame, and every sync frame is answered with an (empty) ack frame:
        // the keepalives of EITHER side keep BOTH sides supplied with frames. So each side reads a
        // frame at least every `eff` = the shortest pace at which a side with keepalive on sends
        // them, where the documented pace of a sender is max(interval, 2 s, its RTO).
        let pace = |on: bool, interval: u64, rto: u64| -> Option<u64> { if on { Some(interval.max(2000).max(rto)) } else { None } };
        let eff_observed = [pace(ccfg.keepalive, ccfg.keepalive_interval_ms, max_rto_client), pace(scfg_ep.keepalive, scfg_ep.keepalive_interval_ms, max_rto_server)].iter().flatten().min().copied();
        // small steps and latencies on a loss-free network: the RTO is max(4 RTT, 2 s/X) with RTT
        // <= a few hundred ms and X never halved below the recover rate while idle, i.e. at most
        // 2 s; there the clause is judged without reference to the RTO the endpoints themselves
        // arrived at (a rate that collapses while idle inflates it)
        let fast = step_max <= 100 && latency <= 50;
        let eff_apriori = [pace(ccfg.keepalive, ccfg.keepalive_interval_ms, 0), pace(scfg_ep.keepalive, scfg_ep.keepalive_interval_ms, 0)].iter().flatten().min().copied();
        let min_to = ccfg.active_timeout_ms.min(scfg_ep.active_timeout_ms);
        // a keepalive leaves with the flush of the step after the one that found it due, is read
        // at the peer's next step, answered with the flush of the step after that, and read one
        // step later: five step intervals and two latencies on top of the pace
        let slack = 2 * latency + 5 * step_max;
        // Outside the idle-after-a-short-exchange scenarios a side is only judged when the PEER's
        // own keepalives supply it (both sides on, each pace inside the other's timeout): after a
        // heavy one-way transfer the receiving endpoint, whose send rate never left its initial
        // one frame per second, can owe thousands of acknowledgement groups, which it sends one
        // per step and ahead of any keepalive (see the observations in DESIGN I.7).
        let symmetric_ok = ccfg.keepalive && scfg_ep.keepalive
            && ccfg.active_timeout_ms >= scfg_ep.keepalive_interval_ms.max(2000).max(max_rto_server).saturating_add(slack + 500)
            && scfg_ep.active_timeout_ms >= ccfg.keepalive_interval_ms.max(2000).max(max_rto_client).saturating_add(slack + 500);
        let judged_general = if idle_focus { eff_observed.map_or(false, |e| min_to >= e.saturating_add(slack + 500)) } else { symmetric_ok };
        let judged_fast = idle_focus && fast && eff_apriori.map_or(false, |e| min_to >= e.saturating_add(slack + 3500));
        if judged_fast {
            w.c.inc("c10_keepalive_cases_checked_fast_domain");
        }
        if ccfg.keepalive != scfg_ep.keepalive && (judged_general || judged_fast) {
            w.c.inc("c10_keepalive_cases_one_sided");
        }
        if judged_general || judged_fast {
            w.c.inc("c10_keepalive_cases_checked");
            let both = w.clients[ci].events.iter().any(|e| e.ev == Ev::Connect) && w.server.events.iter().any(|(a, e)| *a == addr && e.ev == Ev::Connect);
            for (name, evs, my_to) in [
                ("client", w.clients[ci].events.clone(), ccfg.active_timeout_ms),
                ("server", w.server.events.iter().filter(|(a, _)| *a == addr).map(|(_, e)| e.clone()).collect::<Vec<_>>(), scfg_ep.active_timeout_ms),
            ] {
                if !both {
                    continue;
                }
                // (a timeout reported before the Connect belongs to an earlier handshake attempt)
                let t_conn = evs.iter().find(|e| e.ev == Ev::Connect).map_or(0, |e| e.t_ns);
                if let Some(e) = evs.iter().find(|e| e.ev == Ev::Error("timeout") && e.t_ns >= t_conn) {
                    w.viol("C10", "idle-connection-timed-out-despite-keepalive", format!("{} reported Error(Timeout) at t={} ms on a loss-free network although keepalives flow (client: {} every {} ms, server: {} every {} ms; each is answered by the other side) and active_timeout_ms = {} (latency {} ms, steps <= {} ms)", name, e.t_ns / MS, if ccfg.keepalive { "on" } else { "off" }, ccfg.keepalive_interval_ms, if scfg_ep.keepalive { "on" } else { "off" }, scfg_ep.keepalive_interval_ms, my_to, latency, step_max));
                    break;
                }
            }
        }
    }
    check_reack(&mut w);
    if params.get("prop") == Some("C09") {
        let t_end_now = w.now_ns;
        for ci in 0..w.clients.len() {
            check_disconnect(&mut w, ci, t_end_now);
        }
    }
    let connected = w.c.get("cli_connect") > 0;
    let timed_out = w.c.get("c10_timeouts_checked") + w.c.get("c10_handshake_timeouts_checked") + w.c.get("c10_disconnect_attempts_checked") > 0;
    let idle_long = connected && !blackout && t_end > ccfg.active_timeout_ms.max(scfg_ep.active_timeout_ms).saturating_mul(3 * MS);
    let nontrivial = timed_out || idle_long;
    let sig = mix(seed, mix(lose_syn as u64 * 16 + lose_synack as u64, ccfg.active_timeout_ms ^ scfg_ep.active_timeout_ms << 20));
    let sample = if seed % 61 == 0 {
        Some(history_sample(&w, &format!("timers: client timeout {} ms keepalive {} / server timeout {} ms keepalive {}; SYN lost {}x, SYN-ACK lost {}x, blackout {} from {} ms", ccfg.active_timeout_ms, ccfg.keepalive, scfg_ep.active_timeout_ms, scfg_ep.keepalive, lose_syn, lose_synack, blackout, blackout_from / MS)))
    } else {
        None
    };
    w.finish();
    world_out(out, &mut w, nontrivial, sig, sample);
}

// =============================================================================================
// C11 at endpoint level: a finite loss pattern must not kill the connection

pub fn run_ep_recover(seed: u64, params: &Params, out: &mut ScnOut) {
    let mut rng = Rng::new(seed);
    let verbose = params.flag("verbose");
    let latency = *rng.pick(&[0u64, 1, 10, 50, 150]);
    let mut net = NetCfg::ideal(latency);
    let pattern = rng.below(4);
    // all active timeouts are 20 s (the default); every fault below is much shorter than that
    let fault_from = rng.range(0, 8) * SEC;
    let fault_len = rng.range(100, 6000) * MS;
    match pattern {
        0 => {
            // the client's first handshake ACKs are lost: its first data arrives at a server that is still pending
            net.drop_rules.push(DropRule { from: None, to: None, frame_type: "ack", remaining: rng.range(1, 3) as u32 });
        }
        1 => {
            net.phases.push(NetPhase { until_ns: fault_from, loss: 0.0, dup: 0.0, delay_p: 0.0, delay_max_ms: 0, blackout_to_server: false, blackout_to_clients: false });
            let dir = rng.below(3);
            net.phases.push(NetPhase { until_ns: fault_from + fault_len, loss: 0.0, dup: 0.0, delay_p: 0.0, delay_max_ms: 0, blackout_to_server: dir != 1, blackout_to_clients: dir != 2 });
        }
        2 => {
            net.phases.push(NetPhase { until_ns: fault_from, loss: 0.0, dup: 0.0, delay_p: 0.0, delay_max_ms: 0, blackout_to_server: false, blackout_to_clients: false });
            net.phases.push(NetPhase { until_ns: fault_from + fault_len, loss: *rng.pick(&[0.2, 0.5, 0.8]), dup: 0.1, delay_p: 0.2, delay_max_ms: 200, blackout_to_server: false, blackout_to_clients: false });
        }
        _ => {
            net.phases.push(NetPhase { until_ns: fault_len, loss: *rng.pick(&[0.1, 0.3]), dup: 0.0, delay_p: 0.0, delay_max_ms: 0, blackout_to_server: false, blackout_to_clients: false });
        }
    }
    let fair_from = net.fair_from_ns();
    let mut w = World::new(seed, net, verbose);
    let mk = |rng: &mut Rng| uflow::EndpointConfig {
        max_send_rate: *rng.pick(&[200_000usize, 2_000_000]),
        max_receive_rate: *rng.pick(&[200_000usize, 2_000_000]),
        max_packet_size: 20_000,
        max_receive_alloc: 1_000_000,
        keepalive: true,
        keepalive_interval_ms: 2000,
        active_timeout_ms: 20_000,
    };
    let scfg = uflow::server::Config { max_total_connections: 8, max_active_connections: 8, enable_handshake_errors: false, endpoint_config: mk(&mut rng) };
    w.bind_server(scfg, cadence(&mut rng));
    let n = rng.range(1, 2) as usize;
    let mut idx = Vec::new();
    for k in 0..n {
        if let Some(i) = w.connect_client(mk(&mut rng), client_addr(k), cadence(&mut rng), None) {
            idx.push(i);
        }
    }
    let horizon = fair_from + 120 * SEC;
    let send_until = fair_from + rng.range(0, 10) * SEC;
    let probe_at = fair_from + rng.range(30, 60) * SEC;
    let mut probes_sent = false;
    let two_way = rng.chance(0.5);
    let sz = *rng.pick(&[100u64, 1500, 8000]);
    let mut guard = 0;
    let mut probe_uids: Vec<(usize, u64, usize)> = Vec::new(); // (client, hash, len)
    while w.now_ns <= horizon && !w.panicked {
        guard += 1;
        if guard > 3_000_000 {
            break;
        }
        let who = match w.step_next() {
            Some(x) => x,
            None => break,
        };
        if w.now_ns < send_until {
            match who {
                Some(i) if w.clients[i].state == 1 && rng.chance(0.5) => {
                    w.client_send(i, rng.range(12, sz) as usize, rng.below(4) as usize, rng.range(1, 3) as u8);
                }
                None if two_way => {
                    for k in 0..n {
                        let a = client_addr(k);
                        if w.server.conn_state.get(&a) == Some(&1) && rng.chance(0.5) {
                            w.server_send(a, rng.range(12, sz) as usize, rng.below(4) as usize, rng.range(1, 3) as u8);
                        }
                    }
                }
                _ => {}
            }
        }
        if !probes_sent && w.now_ns >= probe_at {
            probes_sent = true;
            for &i in &idx {
                if w.clients[i].state == 1 {
                    for m in [3u8, 2, 1] {
                        if w.client_send(i, 64, 7, m).is_some() {
                            if let Some(e) = w.clients[i].events.last() {
                                if let Ev::AppSend(h, l, _) = e.ev {
                                    probe_uids.push((i, h, l));
                                }
                            }
                        }
                    }
                }
            }
        }
    }
    // oracle: every connection that was established on both sides is still alive at the end, and
    // the probes submitted long after the network turned fair were delivered
    let t_end = w.now_ns;
    for &i in &idx {
        let addr = w.clients[i].addr;
        let c_conn = w.clients[i].events.iter().any(|e| e.ev == Ev::Connect);
        let s_conn = w.server.events.iter().any(|(a, e)| *a == addr && e.ev == Ev::Connect);
        if !(c_conn && s_conn) {
            continue;
        }
        w.c.inc("c11_established_connections_watched");
        let c_end = w.clients[i].events.iter().find(|e| matches!(e.ev, Ev::Error(_) | Ev::Disconnect)).cloned();
        let s_end = w.server.events.iter().find(|(a, e)| *a == addr && matches!(e.ev, Ev::Error(_) | Ev::Disconnect)).map(|(_, e)| e.clone());
        if let Some(e) = c_end.or(s_end) {
            let (starved, diag) = w.death_diag.get(&addr).cloned().unwrap_or((false, String::new()));
            let fault = match pattern {
                0 => "first-acks-lost",
                1 => "short-blackout",
                2 => "loss-burst",
                _ => "loss-at-start",
            };
            let class = if starved { "peer-sender-at-floor-rate" } else if diag.contains("[rto>=20s]") { "peer-sender-rto-above-active-timeout" } else { "peer-sender-not-starved" };
            w.violations.push(Violation::new("C11", "connection-died-after-finite-loss", &format!("C11:connection-died-after-finite-loss:{}", class), format!("connection of {} ended with {:?} at t={} ms although the only fault was '{}' ending at t={} ms (all active timeouts 20 s, keepalive every 2 s, both applications kept calling step()); {}", addr, e.ev, e.t_ns / MS, fault, fair_from / MS, diag)));
        } else if probes_sent {
            for (ci, h, l) in probe_uids.iter().filter(|p| p.0 == i) {
                let _ = ci;
                w.c.inc("c11_probes_checked");
                let got = w.server.events.iter().any(|(a, e)| *a == addr && e.ev == Ev::Receive(*h, *l));
                let drained = w.clients[i].client.as_ref().map_or(false, |c| c.send_buffer_size() == 0);
                if !got && !drained {
                    // still draining the backlog queued ahead of the probes: progressing, not judged
                    w.c.inc("c11_probe_still_queued_at_end_inconclusive");
                    break;
                }
                if !got && t_end >= probe_at + 50 * SEC {
                    let (starved, diag) = w.clients[i].client.as_ref().and_then(|c| c.verif_half_connection()).map(World::hc_starved).unwrap_or((false, String::new()));
                    let class = if starved { "sender-at-floor-rate" } else { "sender-not-starved" };
                    w.violations.push(Violation::new("C11", "probe-not-delivered", &format!("C11:probe-not-delivered:{}", class), format!("a probe packet submitted at t={} ms ({} s after the network turned fair) on the connection of {} was not delivered by t={} ms; {}", probe_at / MS, (probe_at - fair_from) / SEC, addr, t_end / MS, diag.replace("peer sender", "sender"))));
                    break;
                }
                if false {
                    w.viol("C11", "probe-not-delivered", format!("a probe packet submitted at t={} ms ({} s after the network turned fair) on the connection of {} was not delivered by t={} ms", probe_at / MS, (probe_at - fair_from) / SEC, addr, t_end / MS));
                    break;
                }
            }
        }
    }
    let nontrivial = w.c.get("c11_established_connections_watched") > 0 && w.c.get("fate_drop") > 0;
    let sample = if seed % 61 == 0 { Some(history_sample(&w, "ep-recover")) } else { None };
    w.finish();
    world_out(out, &mut w, nontrivial, mix(seed, pattern), sample);
}

// =============================================================================================
// C09: disconnect() with queued data

pub fn run_disconnect(seed: u64, params: &Params, out: &mut ScnOut) {
    let mut rng = Rng::new(seed);
    let verbose = params.flag("verbose");
    let fault_ns = rng.range(5, 40) * SEC;
    let mut net = faulty_net(&mut rng, fault_ns, false);
    // short sessions too (a call within the first two seconds finds the handshake timers still queued)
    let call_at = if rng.chance(0.3) { rng.range(50, 1900) } else { rng.range(500, 6000) } * MS;
    // the first acknowledgements of the disconnect request are lost
    if rng.chance(0.3) {
        net.drop_rules.push(DropRule { from: None, to: None, frame_type: "disconnectack", remaining: rng.range(1, 3) as u32 });
    }
    // sometimes a blackout (one or both ways) begins right after the call
    if rng.chance(0.25) {
        let from = call_at + rng.range(0, 3000) * MS;
        let dir = rng.below(3);
        net.phases.clear();
        net.phases.push(NetPhase { until_ns: from, loss: *rng.pick(&[0.0, 0.05, 0.2]), dup: 0.05, delay_p: 0.1, delay_max_ms: 100, blackout_to_server: false, blackout_to_clients: false });
        net.phases.push(NetPhase { until_ns: from + 100 * SEC, loss: 0.0, dup: 0.0, delay_p: 0.0, delay_max_ms: 0, blackout_to_server: dir != 1, blackout_to_clients: dir != 2 });
    }
    let mut w = World::new(seed, net, verbose);
    maybe_send_faults(&mut w, seed, params, 40 * SEC);
    let mk = |rng: &mut Rng| uflow::EndpointConfig {
        max_send_rate: *rng.pick(&[100_000usize, 2_000_000]),
        max_receive_rate: *rng.pick(&[100_000usize, 2_000_000]),
        max_packet_size: 30_000,
        // (also exact multiples of the fragment size, small enough for the queue to fill them: the
        // sender's and the receiver's idea of "rounded up to a whole fragment" must be the same number)
        max_receive_alloc: *rng.pick(&[100_000usize, 1_000_000, 21 * 1448, 30 * 1448, 69 * 1448, 1_000_000]),
        keepalive: true,
        keepalive_interval_ms: 2000,
        active_timeout_ms: *rng.pick(&[10_000u64, 20_000]),
    };
    let scfg = uflow::server::Config { max_total_connections: 8, max_active_connections: 8, enable_handshake_errors: false, endpoint_config: mk(&mut rng) };
    w.bind_server(scfg, cadence(&mut rng));
    let ci = match w.connect_client(mk(&mut rng), client_addr(0), cadence(&mut rng), None) {
        Some(i) => i,
        None => {
            w.finish();
            world_out(out, &mut w, false, 0, None);
            return;
        }
    };
    let addr = client_addr(0);
    let caller_is_client = rng.chance(0.5);
    let both_call = rng.chance(0.15);
    let n_queue = *rng.pick(&[0usize, 1, 5, 30, 150, 500]);
    let size_max = *rng.pick(&[40u64, 400, 3000, 20_000]);
    let n_empty = if rng.chance(0.35) { rng.range(1, 3) as usize } else { 0 };
    let mut queued = false;
    let mut called = false;
    let horizon = call_at + 80 * SEC;
    let mut guard = 0;
    while w.now_ns <= horizon && !w.panicked {
        guard += 1;
        if guard > 2_000_000 {
            break;
        }
        let who = match w.step_next() {
            Some(x) => x,
            None => break,
        };
        let c_up = w.clients[ci].state == 1;
        let s_up = w.server.conn_state.get(&addr) == Some(&1);
        // some traffic before the call
        if !called && c_up && s_up && rng.chance(0.2) {
            match who {
                Some(i) => {
                    w.client_send(i, rng.range(12, 300) as usize, rng.below(8) as usize, rng.below(4) as u8);
                }
                None => {
                    w.server_send(addr, rng.range(12, 300) as usize, rng.below(8) as usize, rng.below(4) as u8);
                }
            }
        }
        if !called && w.now_ns >= call_at && c_up && s_up {
            let my_turn = (caller_is_client && who == Some(ci)) || (!caller_is_client && who == None);
            if my_turn {
                if !queued {
                    queued = true;
                    for k in 0..n_queue + n_empty {
                        // the last n_empty are zero-length Reliable packets (end-of-stream markers)
                        let len = if k >= n_queue { 0 } else { rng.log_range(12, size_max) as usize };
                        let mode = if k >= n_queue { 3 } else { *rng.pick(&[3u8, 3, 2, 1, 0]) };
                        if caller_is_client {
                            w.client_send(ci, len, rng.below(8) as usize, mode);
                        } else {
                            w.server_send(addr, len, rng.below(8) as usize, mode);
                        }
                    }
                }
                called = true;
                if caller_is_client {
                    w.client_disconnect(ci, false);
                } else {
                    w.server_disconnect(addr, false);
                }
                if both_call {
                    if caller_is_client {
                        w.server_disconnect(addr, rng.chance(0.5));
                    } else {
                        w.client_disconnect(ci, rng.chance(0.5));
                    }
                }
            }
        }
        // both ended: stop early
        if w.clients[ci].state == 2 && w.server.conn_state.get(&addr) == Some(&2) {
            // a few more steps so that anything delivered after the end would show
            for _ in 0..20 {
                if w.step_next().is_none() {
                    break;
                }
            }
            break;
        }
    }
    let t_end = w.now_ns;
    check_payloads(&mut w);
    let nt = check_disconnect(&mut w, ci, t_end);
    let nontrivial = nt && w.c.get("fate_drop") > 0 || w.c.get("c09_disconnect_exchanges") > 0 && n_queue > 0;
    let sample = if seed % 61 == 0 { Some(history_sample(&w, &format!("disconnect(): caller {} with {} packets queued (<= {} bytes), both_call {}", if caller_is_client { "client" } else { "server" }, n_queue, size_max, both_call))) } else { None };
    w.finish();
    world_out(out, &mut w, nontrivial, mix(seed, n_queue as u64), sample);
}

// =============================================================================================
// C17: connection limits

/// Offline, from the wire and the events only: what the server does with a SYN that reaches it.
/// (1) A SYN is answered (SYN-ACK or error) within two steps unless the server has a reason to
/// ignore it: a connection of that address it has reported and not ended, one the peer ended less
/// than 21 s ago (the documented linger), or a handshake it admitted less than 23 s ago (whose
/// resend timer answers). A pending entry that outlives its 22 s makes the server deaf to the
/// address. (2) A Connect must rest on a handshake that is still alive: the SYN-ACK whose nonce
/// the ACK returns was first sent less than 23 s earlier.
/// C07, the other half of "exactly one Connect on each side": a handshake whose first ACK was lost
/// must still complete. (a) An established client that reads a repeated SYN-ACK of its own server
/// (echoing the client's nonce, carrying the server nonce the connection was made with) answers it
/// in that step with an ACK echoing that server nonce. (b) Once such an ACK is read by the server
/// while the handshake is still pending, the server reports the connection (or refuses it).
fn check_reack(w: &mut World) {
    let srv = w.server.addr;
    let mut first: Option<(&'static str, String)> = None;
    for ci in 0..w.clients.len() {
        let c = &w.clients[ci];
        let addr = c.addr;
        let nc = match c.syn_nonce {
            Some(n) => n,
            None => continue,
        };
        let t_conn = match c.events.iter().find(|e| e.ev == Ev::Connect) {
            Some(e) => e.t_ns,
            None => continue,
        };
        let t_end = c.events.iter().filter(|e| matches!(e.ev, Ev::Disconnect | Ev::Error(_) | Ev::AppDisconnect | Ev::AppDisconnectNow | Ev::AppDrop) && e.t_ns >= t_conn).map(|e| e.t_ns).min().unwrap_or(u64::MAX).min(c.dropped_ns.unwrap_or(u64::MAX));
        let next_obj = w.clients.iter().filter(|o| o.addr == addr && o.created_ns > c.created_ns).map(|o| o.created_ns).min().unwrap_or(u64::MAX);
        let synacks: Vec<(u64, u32, Option<u64>)> = w.delivered.iter().filter(|d| d.src == srv && d.dst == addr && !d.injected && d.t_ns >= c.created_ns && d.t_ns < t_end.min(next_obj)).filter_map(|d| match d.frame { Some(RFrame::SynAck { nonce_ack, nonce, .. }) if nonce_ack == nc => Some((d.t_ns, nonce, d.read_ns)), _ => None }).collect();
        let before: Vec<u32> = synacks.iter().filter(|(t, _, _)| *t <= t_conn).map(|x| x.1).collect();
        let s_nonce = match before.first() {
            Some(&s) if before.iter().all(|&x| x == s) => s,
            _ => continue,
        };
        // (a) repeated SYN-ACKs read while established
        for &(t, s, read) in synacks.iter().filter(|(t, _, _)| *t > t_conn) {
            if s != s_nonce {
                continue;
            }
            // a socket whose receive calls fail hands the datagram over later: the step that
            // took it out of the socket is observed
            if recv_faults(w) && read.map_or(true, |r| r <= t) {
                continue;
            }
            let t = if recv_faults(w) { read.unwrap() - 1 } else { t };
            // (a datagram delivered at the instant of a step may have arrived just after it: the
            // step that has certainly read it is the first one strictly later)
            let step = match c.step_times.iter().find(|&&x| x > t) {
                Some(&x) if x < t_end => x,
                _ => continue,
            };
            w.c.inc("c07_repeated_synacks_to_established_client");
            let acks: Vec<u32> = w.wire.iter().filter(|r| r.src == addr && r.dst == srv && !r.injected && r.t_ns >= t && r.t_ns <= step).filter_map(|r| if let Some(RFrame::Ack { nonce_ack }) = r.frame { Some(nonce_ack) } else { None }).collect();
            if !acks.contains(&s_nonce) && first.is_none() {
                first = Some(("synack-to-established-client-not-acknowledged", format!("client object {} ({}) connected at t={} ms with server nonce {:#x}; the server's repeated SYN-ACK (its first ACK was lost) was delivered at t={} ms and read by t={} ms, but the client sent {} by then instead of an ACK echoing {:#x}: the server can never complete the handshake", ci, addr, t_conn / MS, s_nonce, t / MS, step / MS, if acks.is_empty() { "no ACK".to_string() } else { format!("ACKs echoing {:x?}", acks) }, s_nonce)));
            }
        }
        // (b) a correct ACK read by the server while the handshake is pending
        let first_synack_sent = w.wire.iter().find(|r| r.src == srv && r.dst == addr && !r.injected && r.t_ns >= c.created_ns && matches!(r.frame, Some(RFrame::SynAck { nonce_ack, nonce, .. }) if nonce_ack == nc && nonce == s_nonce)).map(|r| r.t_ns);
        let first_synack_sent = match first_synack_sent {
            Some(t) => t,
            None => continue,
        };
        let ack_del = w.delivered.iter().find(|d| d.src == addr && d.dst == srv && !d.injected && d.t_ns >= first_synack_sent && d.t_ns < next_obj && matches!(d.frame, Some(RFrame::Ack { nonce_ack }) if nonce_ack == s_nonce)).map(|d| if recv_faults(w) { d.read_ns.map_or(u64::MAX - 1, |r| r - 1) } else { d.t_ns });
        let ack_del = match ack_del {
            Some(t) => t,
            None => continue,
        };
        let s_step = match w.server.step_times.iter().find(|&&x| x > ack_del) {
            Some(&x) => x,
            None => continue,
        };
        // the pending entry may have run out of its 22 s, or the application may have ended it
        if s_step >= first_synack_sent + 21 * SEC {
            continue;
        }
        if w.server.events.iter().any(|(a, e)| *a == addr && e.t_ns >= c.created_ns && e.t_ns <= s_step && matches!(e.ev, Ev::AppDrop | Ev::AppDisconnect | Ev::AppDisconnectNow)) {
            continue;
        }
        w.c.inc("c07_valid_acks_read_by_server");
        let reported = w.server.events.iter().any(|(a, e)| *a == addr && e.t_ns >= first_synack_sent && e.t_ns <= s_step && matches!(e.ev, Ev::Connect | Ev::Error(_)));
        let refused = w.wire.iter().any(|r| r.src == srv && r.dst == addr && !r.injected && r.t_ns >= first_synack_sent && r.t_ns <= s_step && matches!(r.frame, Some(RFrame::Error { .. })));
        if !reported && !refused && first.is_none() {
            first = Some(("valid-ack-did-not-complete-handshake", format!("the server admitted the handshake of {} at t={} ms (SYN-ACK with nonce {:#x}); an ACK echoing that nonce was delivered at t={} ms and read by the server's step at t={} ms, within the 22 s the handshake stays pending, yet the server neither reported Connect nor refused the connection", addr, first_synack_sent / MS, s_nonce, ack_del / MS, s_step / MS)));
        }
    }
    if let Some((rule, msg)) = first {
        w.viol("C07", rule, msg);
    }
}

fn check_syn_handling(w: &mut World) {
    use std::collections::BTreeMap;
    let srv = w.server.addr;
    let gap = w.server.max_step_gap_ns;
    let mut synacks: BTreeMap<SocketAddr, Vec<(u64, u32)>> = BTreeMap::new(); // (t, server nonce)
    let mut replies: BTreeMap<SocketAddr, Vec<u64>> = BTreeMap::new();
    for r in w.wire.iter() {
        if r.src == srv && !r.injected {
            match r.frame {
                Some(RFrame::SynAck { nonce, .. }) => {
                    synacks.entry(r.dst).or_default().push((r.t_ns, nonce));
                    replies.entry(r.dst).or_default().push(r.t_ns);
                }
                Some(RFrame::Error { .. }) => replies.entry(r.dst).or_default().push(r.t_ns),
                _ => {}
            }
        }
    }
    let mut intervals: Vec<(SocketAddr, u64, u64, bool)> = Vec::new(); // (addr, connect, end, ended by peer's Disconnect)
    {
        let mut open: BTreeMap<SocketAddr, u64> = BTreeMap::new();
        let mut own: BTreeMap<SocketAddr, bool> = BTreeMap::new();
        for (a, e) in w.server.events.iter() {
            match e.ev {
                Ev::Connect => {
                    open.insert(*a, e.t_ns);
                    own.insert(*a, false);
                }
                Ev::AppDisconnect | Ev::AppDisconnectNow => {
                    own.insert(*a, true);
                }
                Ev::Disconnect | Ev::Error(_) | Ev::AppDrop => {
                    if let Some(t0) = open.remove(a) {
                        // (an entry may linger after any Disconnect: also when the application had
                        // asked for a graceful close that the peer's own request overtook)
                        let _ = &own;
                        intervals.push((*a, t0, e.t_ns, e.ev == Ev::Disconnect));
                    }
                }
                _ => {}
            }
        }
        for (a, t0) in open {
            intervals.push((a, t0, u64::MAX, false));
        }
    }
    let t_last_step = w.server.step_times.last().copied().unwrap_or(0);
    // (a server whose receive calls fail takes a SYN out of its socket later than it arrived: the
    // clause counts from the observed read; a SYN never read carries no obligation)
    let rf = recv_faults(w);
    let syns: Vec<(u64, SocketAddr)> = w.delivered.iter().filter(|d| d.dst == srv && !d.injected && matches!(d.frame, Some(RFrame::Syn { version: 3, .. })) && (!rf || d.read_ns.is_some())).map(|d| (if rf { d.read_ns.unwrap().saturating_sub(1) } else { d.t_ns }, d.src)).collect();
    let mut deaf: Option<String> = None;
    for (t, x) in syns {
        if t + 2 * gap + 200 * MS > t_last_step {
            continue; // the server did not get two more steps
        }
        w.c.inc("c07_syns_delivered_checked");
        let answered = replies.get(&x).map_or(false, |v| v.iter().any(|&r| r >= t && r <= t + 2 * gap + 200 * MS));
        if answered {
            continue;
        }
        let reason = intervals.iter().any(|(a, c, e, by_peer)| *a == x && *c <= t + gap && (*e == u64::MAX || e.saturating_add(if *by_peer { 21 * SEC } else { SEC } + gap) >= t))
            || synacks.get(&x).map_or(false, |v| v.iter().any(|&(ts, _)| ts <= t + gap && t <= ts + 23 * SEC + 11 * gap));
        if !reason && deaf.is_none() {
            let last = synacks.get(&x).and_then(|v| v.iter().filter(|s| s.0 <= t).last().map(|s| s.0));
            deaf = Some(format!("a SYN from {} delivered to the server at t={} ms got no reply within two steps, although the server holds no connection of that address (none reported and open, none ended by the peer in the last 21 s) and the last SYN-ACK it sent there was at {:?} ms (a pending handshake lives 22 s)", x, t / MS, last.map(|v| v / MS)));
        }
    }
    if let Some(m) = deaf {
        w.viol("C07", "syn-ignored-without-reason", m);
    }
    // (2) Connect resting on an expired handshake
    let mut stale: Option<String> = None;
    for (a, e) in w.server.events.iter() {
        if e.ev != Ev::Connect {
            continue;
        }
        // the ACK that was delivered last before this Connect, and the first transmission of the SYN-ACK it answers
        let ack = w.delivered.iter().filter(|d| d.dst == srv && d.src == *a && d.t_ns <= e.t_ns).filter_map(|d| if let Some(RFrame::Ack { nonce_ack }) = d.frame { Some((d.t_ns, nonce_ack)) } else { None }).last();
        if let Some((_, n)) = ack {
            // the most recent run of SYN-ACKs with that nonce before the Connect
            if let Some(v) = synacks.get(a) {
                let mut first: Option<u64> = None;
                let mut prev_t: Option<u64> = None;
                for &(ts, nn) in v.iter().filter(|s| s.0 <= e.t_ns) {
                    if nn == n {
                        if first.is_none() || prev_t.map_or(false, |p| ts > p + 3 * SEC) {
                            first = Some(ts);
                        }
                        prev_t = Some(ts);
                    }
                }
                if let Some(f) = first {
                    w.c.inc("c07_connects_dated");
                    // (a pending handshake is eleven timers in a row, each firing at the server's next
                    // step: it outlives its 22 s by up to eleven step intervals)
                    if e.t_ns > f + 23 * SEC + 13 * gap && stale.is_none() {
                        stale = Some(format!("server reported Connect for {} at t={} ms on an ACK returning the nonce of a SYN-ACK first sent at t={} ms: that handshake expired after 22 s", a, e.t_ns / MS, f / MS));
                    }
                }
            }
        }
    }
    if let Some(m) = stale {
        w.viol("C07", "connect-from-expired-handshake", m);
    }
}

/// Offline, from the wire and the server's event stream only: whenever the server admits a new
/// handshake (a SYN-ACK with a nonce pair it has not sent to that address just before), the
/// connections it certainly holds at that instant — established ones (between Connect and their
/// terminal event) plus handshakes in progress (the same SYN-ACK is sent again later, or leads to
/// Connect later) — must number fewer than max_total_connections.
fn check_admissions(w: &mut World, max_total: usize) {
    use std::collections::BTreeMap;
    let srv = w.server.addr;
    let mut synacks: BTreeMap<SocketAddr, Vec<(u64, u32, u32)>> = BTreeMap::new();
    for r in w.wire.iter() {
        if r.src == srv && !r.injected {
            if let Some(RFrame::SynAck { nonce_ack, nonce, .. }) = r.frame {
                synacks.entry(r.dst).or_default().push((r.t_ns, nonce, nonce_ack));
            }
        }
    }
    // established intervals
    let mut intervals: Vec<(SocketAddr, u64, u64)> = Vec::new();
    {
        let mut open: BTreeMap<SocketAddr, u64> = BTreeMap::new();
        for (a, e) in w.server.events.iter() {
            match e.ev {
                Ev::Connect => {
                    open.insert(*a, e.t_ns);
                }
                Ev::Disconnect | Ev::Error(_) | Ev::AppDrop => {
                    if let Some(t0) = open.remove(a) {
                        intervals.push((*a, t0, e.t_ns));
                    }
                }
                _ => {}
            }
        }
        for (a, t0) in open {
            intervals.push((a, t0, u64::MAX));
        }
    }
    let mut worst: Option<String> = None;
    for (x, list) in synacks.iter() {
        for (k, &(t, n, na)) in list.iter().enumerate() {
            if k > 0 && (list[k - 1].1, list[k - 1].2) == (n, na) {
                continue; // a repetition, not an admission
            }
            w.c.inc("c17_admissions_checked");
            let est: Vec<SocketAddr> = intervals.iter().filter(|(a, c, e)| a != x && *c < t && t < *e).map(|(a, _, _)| *a).collect();
            let mut pend: Vec<SocketAddr> = Vec::new();
            for (y, ly) in synacks.iter() {
                if y == x || est.contains(y) {
                    continue;
                }
                let before = ly.iter().filter(|s| s.0 < t).last();
                let after = ly.iter().find(|s| s.0 > t);
                let b = match before {
                    Some(b) => b,
                    None => continue,
                };
                // the same SYN-ACK again later: the entry lived through t
                let mut pending = after.map_or(false, |a| (a.1, a.2) == (b.1, b.2));
                // or it led to Connect later without another admission in between
                if !pending && after.is_none() {
                    pending = intervals.iter().any(|(a, c, _)| a == y && *c > t && *c < b.0 + 23 * SEC);
                }
                // an established connection that ended before t leaves the SYN-ACK of its own handshake behind
                if pending && intervals.iter().any(|(a, c, _)| a == y && *c >= b.0 && *c <= t) {
                    pending = false;
                }
                if pending {
                    pend.push(*y);
                }
            }
            w.c.max("max_c17_held_at_admission", (est.len() + pend.len()) as i128);
            if est.len() + pend.len() >= max_total && worst.is_none() {
                worst = Some(format!("at t={} ms the server admitted a handshake from {} (SYN-ACK sent) while it held {} established connections {:?} and {} handshakes in progress {:?}: max_total_connections = {}", t / MS, x, est.len(), est, pend.len(), pend, max_total));
            }
        }
    }
    if let Some(m) = worst {
        w.viol("C17", "admitted-beyond-max-total", m);
    }
    // the converse: a ServerFull refusal needs a reason. An upper bound of what the server can
    // still be holding at that instant, from the wire and the events alone: connections reported
    // and not ended (or ended by the peer's Disconnect less than 20 s ago: the documented linger),
    // handshakes admitted less than 22 s ago (10 resends 2 s apart). Timers that fire late keep
    // entries beyond that.
    let max_active = w.server.max_active;
    let slack = 150 * MS;
    // (timers fire at the server's next step: an entry outlives its documented time by up to one
    // step interval, a pending handshake — eleven timers in a row — by up to eleven)
    let lag = w.server.max_step_gap_ns;
    let mut first_unjustified: Option<String> = None;
    let refusals: Vec<(u64, SocketAddr)> = w.wire.iter().filter(|r| r.src == srv && !r.injected && matches!(r.frame, Some(RFrame::Error { error: 2, .. }))).map(|r| (r.t_ns, r.dst)).collect();
    // how each established interval ended
    let ended_by_peer_disconnect = |a: &SocketAddr, e: u64| -> bool {
        // (also when the server application had asked for a graceful close that the peer's own
        // request overtook: the entry lingers after any Disconnect)
        w.server.events.iter().any(|(x, ev)| x == a && ev.t_ns == e && ev.ev == Ev::Disconnect)
    };
    for (t, x) in refusals {
        w.c.inc("c17_refusals_checked");
        let mut held: Vec<SocketAddr> = Vec::new();
        let mut active = 0usize;
        for (a, c, e) in intervals.iter() {
            if a == &x {
                continue;
            }
            let linger = if *e != u64::MAX && ended_by_peer_disconnect(a, *e) { 20 * SEC } else { 0 };
            if *c <= t + slack && (*e == u64::MAX || e.saturating_add(linger + SEC + lag) >= t) {
                if !held.contains(a) {
                    held.push(*a);
                }
            }
            if *c <= t + slack && (*e == u64::MAX || *e + slack >= t) {
                active += 1;
            }
        }
        for (y, ly) in synacks.iter() {
            if y == &x || held.contains(y) {
                continue;
            }
            let mut prev: Option<(u32, u32)> = None;
            for &(ts, n, na) in ly.iter() {
                let first_of_pair = prev != Some((n, na));
                prev = Some((n, na));
                if first_of_pair && ts <= t + slack && t <= ts + 23 * SEC + 11 * lag {
                    held.push(*y);
                    break;
                }
            }
        }
        if held.len() < max_total && active < max_active && first_unjustified.is_none() {
            first_unjustified = Some(format!("at t={} ms the server refused {} with ServerFull although at most {} connections can still be held (established or ended by the peer's Disconnect < 20 s ago or admitted < 22 s ago: {:?}) of max_total_connections = {}, and at most {} are established of max_active_connections = {}", t / MS, x, held.len(), held, max_total, active, max_active));
        }
    }
    if let Some(m) = first_unjustified {
        w.viol("C17", "refused-although-capacity-free", m);
    }
}

pub fn run_limits(seed: u64, params: &Params, out: &mut ScnOut) {
    let mut rng = Rng::new(seed);
    let verbose = params.flag("verbose");
    let max_active = rng.range(1, 8) as usize;
    // the total limit is usually the larger one, but need not be (both only have to be positive)
    let max_total = if Rng::new(seed ^ 0x7071).chance(0.25) { rng.range(1, max_active as u64) as usize } else { rng.range(max_active as u64, 16) as usize };
    let n_clients = rng.range(1, 40) as usize;
    let mut net = NetCfg::ideal(*rng.pick(&[0u64, 5, 40]));
    // overlap pattern of the handshakes
    let pattern = rng.below(4);
    match pattern {
        0 => {
            // all SYNs answered before any ACK arrives: the first ACKs of everyone are lost
            net.drop_rules.push(DropRule { from: None, to: None, frame_type: "ack", remaining: n_clients as u32 });
        }
        1 => {
            net.phases.push(NetPhase { until_ns: rng.range(1, 6) * SEC, loss: 0.3, dup: 0.2, delay_p: 0.5, delay_max_ms: 2500, blackout_to_server: false, blackout_to_clients: false });
        }
        _ => {}
    }
    // a quarter: the server's refusals travel 2.1..9 s longer than everything else, so that a
    // refused client's SYN resend (same nonce, 2 s later) may have been accepted — capacity freed
    // meanwhile — before the refusal of its first SYN arrives: an established client ignores it
    if Rng::new(seed ^ 0xde1a).chance(0.25) {
        net.error_delay_ns = Some((2100 * MS, 9000 * MS));
    }
    let mut w = World::new(seed, net, verbose);
    maybe_send_faults(&mut w, seed, params, 40 * SEC);
    let mut xrng = Rng::new(seed ^ 0xc055);
    let mk = |rng: &mut Rng| uflow::EndpointConfig {
        max_send_rate: 2_000_000,
        max_receive_rate: 2_000_000,
        max_packet_size: 10_000,
        max_receive_alloc: 100_000,
        keepalive: true,
        keepalive_interval_ms: 2000,
        active_timeout_ms: *rng.pick(&[4000u64, 8000]),
    };
    let errors_on = rng.chance(0.5);
    let mut sep = mk(&mut rng);
    sep.max_send_rate = *rng.pick(&[20_000usize, 100_000, 2_000_000]);
    // one server in eight is stepped rarely: every step comes a little later than its own active
    // timeout after the previous one, so that at the start of each step every established
    // connection's deadline has passed — and is pushed forward again by the frames that step reads
    // (a step reads its socket before it looks at its timers): those connections are alive and count
    let slow_server = Rng::new(seed ^ 0x510e).chance(0.12);
    if slow_server {
        sep.active_timeout_ms = *Rng::new(seed ^ 0x510f).pick(&[1000u64, 2000, 3000]);
        w.c.inc("c17_servers_stepped_less_often_than_their_active_timeout");
    }
    let server_cadence = if slow_server { (sep.active_timeout_ms * MS + 100 * MS, sep.active_timeout_ms * MS + 400 * MS) } else { (10 * MS, 10 * MS) };
    let scfg = uflow::server::Config { max_total_connections: max_total, max_active_connections: max_active, enable_handshake_errors: errors_on, endpoint_config: sep };
    w.bind_server(scfg, server_cadence);
    // arrival schedule: burst, staggered, or waves
    let arrive: Vec<u64> = (0..n_clients)
        .map(|k| match pattern {
            0 => rng.below(50) * MS,
            // a first wave fills the server, the rest keep arriving while connections end
            2 => if k % 2 == 0 { rng.below(50) * MS } else { rng.range(2000, 27_000) * MS },
            _ => (k as u64) * rng.range(0, 400) * MS,
        })
        .collect();
    let mut idx: Vec<Option<usize>> = vec![None; n_clients];
    let mut end_action_at: Vec<u64> = (0..n_clients).map(|_| rng.range(3, 25) * SEC).collect();
    // a client that has disconnected may come back from the SAME address while the server still
    // remembers the ended connection, and stays; later a wave of handshakes that are never
    // completed (their ACKs are lost) arrives from fresh addresses, one more than would fit
    let reconnects = rng.chance(0.5);
    let mut reconnect_at: Vec<Option<u64>> = vec![None; n_clients];
    let retries = rng.chance(0.6);
    let mut retried: Vec<bool> = vec![false; n_clients];
    let mut extra_objects: Vec<usize> = Vec::new();
    let late_wave = rng.chance(0.6);
    let late_at = rng.range(26, 48) * SEC;
    let n_late = max_total + 2;
    let late_gap = rng.range(60, 400) * MS;
    let mut late_sent = 0usize;
    let phase1_end = if late_wave { late_at + n_late as u64 * late_gap + 8 * SEC } else { 30 * SEC };
    let mut guard = 0;
    while w.now_ns <= phase1_end && !w.panicked {
        guard += 1;
        if guard > 3_000_000 {
            break;
        }
        for k in 0..n_clients {
            if idx[k].is_none() && arrive[k] <= w.now_ns {
                idx[k] = w.connect_client(mk(&mut rng), client_addr(k), (10 * MS, 40 * MS), None);
                if idx[k].is_none() {
                    idx[k] = Some(usize::MAX);
                }
            }
            // a client refused with ServerFull tries again from the same address a little later
            if retries && reconnect_at[k].is_none() && !retried[k] {
                if let Some(i) = idx[k] {
                    if i != usize::MAX && w.clients[i].events.iter().any(|e| e.ev == Ev::Error("serverfull")) {
                        retried[k] = true;
                        reconnect_at[k] = Some(w.now_ns + rng.range(500, 12_000) * MS);
                        w.c.inc("c17_retries_after_serverfull");
                    }
                }
            }
            if reconnect_at[k].map_or(false, |t| t <= w.now_ns) {
                reconnect_at[k] = None;
                if let Some(i) = idx[k] {
                    if i != usize::MAX {
                        w.drop_client(i);
                    }
                }
                if let Some(ni) = w.connect_client(mk(&mut rng), client_addr(k), (10 * MS, 40 * MS), None) {
                    extra_objects.push(ni);
                    w.c.inc("c17_reconnects_from_same_address");
                }
            }
        }
        if late_wave && w.now_ns >= late_at + late_sent as u64 * late_gap && late_sent < n_late {
            if late_sent == 0 {
                w.net.drop_rules.push(DropRule { from: None, to: None, frame_type: "ack", remaining: 100_000 });
            }
            if let Some(ni) = w.connect_client(mk(&mut rng), client_addr(200 + late_sent), (10 * MS, 40 * MS), None) {
                extra_objects.push(ni);
            }
            late_sent += 1;
            w.c.inc("c17_late_wave_handshakes");
        }
        let who = match w.step_next() {
            Some(x) => x,
            None => {
                w.now_ns += 10 * MS;
                continue;
            }
        };
        // connections end in between: disconnect from either side, drop, or silent death (timeout)
        if let Some(i) = who {
            let k = match (0..n_clients).find(|&k| idx[k] == Some(i)) {
                Some(k) => k,
                None => {
                    // a reconnected or late-wave client object: it just stays
                    if w.clients[i].state == 1 && rng.chance(0.05) {
                        w.client_send(i, rng.range(12, 500) as usize, 0, 3);
                    }
                    continue;
                }
            };
            if w.now_ns >= end_action_at[k] && w.clients[i].client.is_some() {
                end_action_at[k] = u64::MAX;
                let action = rng.below(5);
                if action <= 1 && reconnects && w.clients[i].state == 1 && rng.chance(0.7) {
                    reconnect_at[k] = Some(w.now_ns + rng.range(100, 9000) * MS);
                }
                // crossing closes: both applications end the connection within one round trip, so
                // that each side is closing when the other's request arrives
                let crossing = xrng.chance(0.3);
                if crossing && action != 2 && action != 3 {
                    w.c.inc("c17_crossing_disconnects");
                }
                match action {
                    0 | 1 => {
                        w.client_disconnect(i, action == 1);
                        if crossing {
                            let a = w.clients[i].addr;
                            w.server_disconnect(a, xrng.chance(0.6));
                        }
                    }
                    2 => w.drop_client(i),
                    3 => {
                        let a = w.clients[i].addr;
                        w.server_drop(a);
                    }
                    _ => {
                        let a = w.clients[i].addr;
                        let now = rng.chance(0.4);
                        if !now {
                            // a graceful disconnect with a send queue that takes a while to flush:
                            // the connection stays established meanwhile
                            for _ in 0..rng.range(0, 30) {
                                w.server_send(a, rng.range(1000, 10_000) as usize, 0, 3);
                            }
                            w.c.inc("c17_graceful_disconnects_with_queued_data");
                        }
                        w.server_disconnect(a, now);
                        if crossing {
                            w.client_disconnect(i, xrng.chance(0.6));
                        }
                    }
                }
                w.c.inc("c17_connections_ended_by_script");
                // a replacement client from a fresh address tries to take the freed capacity later
            }
            if w.clients[i].state == 1 && rng.chance(0.05) {
                w.client_send(i, rng.range(12, 500) as usize, 0, 3);
            }
        }
    }
    // refusals: a client that saw ServerFull must have been sent the matching error frame
    for k in 0..n_clients {
        if let Some(i) = idx[k] {
            if i == usize::MAX {
                continue;
            }
            let addr = w.clients[i].addr;
            let full = w.clients[i].events.iter().any(|e| e.ev == Ev::Error("serverfull"));
            if full {
                w.c.inc("c17_refused_with_serverfull");
                if errors_on && !w.server.events.iter().any(|(a, e)| *a == addr && e.ev == Ev::Error("serverfull")) {
                    w.viol("C17", "serverfull-event-missing", format!("client at {} was refused with ServerFull but the server (enable_handshake_errors on) reported no such error", addr));
                }
            }
        }
    }
    check_admissions(&mut w, max_total);
    // how often the delayed-refusal case really arises: a refusal echoing the client's nonce read
    // by a client object that is established at that moment
    for c in w.clients.iter() {
        if let (Some(tc), Some(n)) = (c.events.iter().find(|e| e.ev == Ev::Connect).map(|e| e.t_ns), c.syn_nonce) {
            let t_end = c.events.iter().find(|e| matches!(e.ev, Ev::Disconnect | Ev::Error(_) | Ev::AppDrop)).map_or(u64::MAX, |e| e.t_ns).min(c.dropped_ns.unwrap_or(u64::MAX));
            let k = w.delivered.iter().filter(|d| d.dst == c.addr && d.t_ns >= c.created_ns && matches!(d.frame, Some(RFrame::Error { nonce_ack, .. }) if nonce_ack == n) && d.read_ns.map_or(false, |r| r > tc && r < t_end)).count();
            if k > 0 {
                w.c.add("c07_refusals_of_an_earlier_syn_read_by_established_clients", k as i128);
            }
        }
    }
    check_syn_handling(&mut w);
    check_reack(&mut w);
    // phase 2: everything ends; after the closed linger capacity must be available again
    for k in 0..n_clients {
        if let Some(i) = idx[k] {
            if i != usize::MAX {
                w.drop_client(i);
            }
        }
    }
    for i in extra_objects {
        w.drop_client(i);
    }
    w.net.drop_rules.clear();
    // (50 s covers the documented lifetimes — 22 s pending, 20 s linger, timeouts <= 8 s — for a
    // server stepped every 10 ms; timers fire at the next step, a pending handshake is eleven of them)
    let quiet_until = w.now_ns + 50 * SEC + 12 * w.server.max_step_gap_ns;
    while w.now_ns <= quiet_until && !w.panicked {
        if w.step_next().is_none() {
            break;
        }
    }
    let fresh = client_addr(500 + (seed % 100) as usize);
    let before = w.server.events.len();
    let ni = w.connect_client(mk(&mut rng), fresh, (10 * MS, 10 * MS), None);
    let until = w.now_ns + 10 * SEC + 4 * w.server.max_step_gap_ns;
    while w.now_ns <= until && !w.panicked {
        if w.step_next().is_none() {
            break;
        }
    }
    if let Some(ni) = ni {
        w.c.inc("c17_capacity_reuse_checked");
        let ok_c = w.clients[ni].events.iter().any(|e| e.ev == Ev::Connect);
        let ok_s = w.server.events[before..].iter().any(|(a, e)| *a == fresh && e.ev == Ev::Connect);
        if !(ok_c && ok_s) {
            let evs: Vec<String> = w.clients[ni].events.iter().map(|e| format!("{:?}", e.ev)).collect();
            let counts = w.server.server.as_ref().map(|s| s.verif_counts());
            w.viol("C17", "capacity-not-released", format!("all {} earlier connections ended more than 50 s ago (timeouts <= 8 s, closed linger 20 s), yet a new client could not connect (limits active {} / total {}): client saw [{}]; server internal counts (tracked, active list, timers) = {:?}", n_clients, max_active, max_total, evs.join(","), counts));
        }
    }
    w.c.max("max_active_seen", w.server.max_active_seen as i128);
    w.c.max("max_tracked_seen", w.server.max_tracked_seen as i128);
    let over_subscribed = n_clients > max_active;
    if over_subscribed {
        w.c.inc("c17_scenarios_with_more_clients_than_active_limit");
    }
    let nontrivial = over_subscribed && w.c.get("c17_connections_ended_by_script") > 0;
    let sample = if seed % 61 == 0 { Some(history_sample(&w, &format!("limits: max_active {} max_total {} clients {} pattern {}", max_active, max_total, n_clients, pattern))) } else { None };
    w.finish();
    world_out(out, &mut w, nontrivial, mix(seed, (max_active * 64 + max_total) as u64), sample);
}

// =============================================================================================
// C18: no amplification towards unverified addresses

pub fn run_amplify(seed: u64, params: &Params, out: &mut ScnOut) {
    let mut rng = Rng::new(seed);
    let verbose = params.flag("verbose");
    let mut w = World::new(seed, NetCfg::ideal(rng.range(0, 20)), verbose);
    maybe_send_faults(&mut w, seed, params, 40 * SEC);
    let full = rng.chance(0.3);
    let long_run = Rng::new(seed ^ 0x10e6).chance(0.2);
    let long_timeout: u64 = if long_run { *Rng::new(seed ^ 0x10e7).pick(&[120_000u64, 600_000, 3_600_000]) } else { 20_000 };
    let scfg = uflow::server::Config {
        max_total_connections: if full { rng.range(1, 3) as usize } else { 4096 },
        max_active_connections: if full { 1 } else { 32 },
        enable_handshake_errors: rng.chance(0.5),
        // also servers configured to be patient with established connections: the patience must
        // not extend to addresses that have proven nothing
        endpoint_config: uflow::EndpointConfig { max_packet_size: 100_000, max_receive_alloc: 1_000_000, active_timeout_ms: long_timeout, ..Default::default() },
    };
    w.bind_server(scfg, if long_run { (50 * MS, 50 * MS) } else { (10 * MS, 10 * MS) });
    let srv = w.server.addr;
    // honest clients fill a small server: from the start, or (half of the time) only after the
    // first half second, so that handshakes admitted while there was room find the server full
    // when their ACK arrives
    let late_honest = full && Rng::new(seed ^ 0x1a7e).chance(0.5);
    if full && !late_honest {
        for k in 0..3 {
            w.connect_client(Default::default(), client_addr(k), (10 * MS, 10 * MS), None);
        }
    }
    let mut honest_pending = late_honest;
    let n_addr = rng.range(1, 30) as usize;
    // schedule: (time, source address index, datagram)
    let mut plan: Vec<(u64, usize, Vec<u8>, &'static str)> = Vec::new();
    let mut only_undersized = vec![true; n_addr];
    for a in 0..n_addr {
        let n = rng.range(1, 25);
        let base_nonce = rng.u32();
        for _ in 0..n {
            let t = rng.range(0, 28_000) * MS;
            let kind = rng.below(10);
            let (bytes, label): (Vec<u8>, &'static str) = match kind {
                0 | 1 => {
                    only_undersized[a] = false;
                    (encode(&RFrame::Syn { version: 3, nonce: base_nonce, max_receive_rate: rng.u32(), max_packet_size: rng.range(1, 1_000_000) as u32, max_receive_alloc: rng.range(100_000, 10_000_000) as u32 }), "valid-syn-same-nonce")
                }
                2 => {
                    only_undersized[a] = false;
                    (encode(&RFrame::Syn { version: 3, nonce: rng.u32(), max_receive_rate: rng.u32(), max_packet_size: rng.range(1, 1_000_000) as u32, max_receive_alloc: rng.range(100_000, 10_000_000) as u32 }), "valid-syn-fresh-nonce")
                }
                3 => {
                    only_undersized[a] = false;
                    (encode(&RFrame::Syn { version: foreign_version(&mut rng), nonce: rng.u32(), max_receive_rate: 1, max_packet_size: 1, max_receive_alloc: 1 }), "wrong-version-syn")
                }
                4 => {
                    only_undersized[a] = false;
                    // refused for configuration: packet size beyond the server's allocation, or allocation too small
                    if rng.chance(0.5) {
                        (encode(&RFrame::Syn { version: 3, nonce: rng.u32(), max_receive_rate: 1000, max_packet_size: u32::MAX, max_receive_alloc: u32::MAX }), "config-refused-syn")
                    } else {
                        (encode(&RFrame::Syn { version: 3, nonce: rng.u32(), max_receive_rate: 1000, max_packet_size: 10, max_receive_alloc: rng.range(0, 99_999) as u32 }), "config-refused-syn")
                    }
                }
                5 | 6 => {
                    // undersized SYN-typed datagram with a valid CRC: every length 5..1471
                    let len = if rng.chance(0.3) { rng.range(5, 24) } else { rng.range(5, 1471) } as usize;
                    let mut body = vec![0u8; len - 4];
                    body[0] = 0;
                    if body.len() > 1 {
                        // the protocol version byte: ours, or any other
                        body[1] = *rng.pick(&[3u8, 3, 0, 1, 2, 4, 200, 255]);
                    }
                    for b in body.iter_mut().skip(2) {
                        *b = rng.u64() as u8;
                    }
                    (seal(body), "undersized-syn")
                }
                7 if rng.chance(0.5) => {
                    only_undersized[a] = false;
                    // the shortest datagrams there are: nothing, zeros, ones, the CRC of nothing
                    let len = rng.below(9) as usize;
                    (match rng.below(3) { 0 => vec![0u8; len], 1 => vec![0xFFu8; len], _ => seal(vec![0u8; len.saturating_sub(4)]) }, "stray-frame")
                }
                7 => {
                    only_undersized[a] = false;
                    // oversized datagram (the endpoint reads at most one MTU)
                    let mut b = encode(&RFrame::Syn { version: 3, nonce: rng.u32(), max_receive_rate: 1, max_packet_size: 1, max_receive_alloc: 1_000_000 });
                    b.extend_from_slice(&[0u8; 50]);
                    (b, "oversized")
                }
                _ => {
                    only_undersized[a] = false;
                    // stray frames of every other type
                    let f = match rng.below(7) {
                        0 => RFrame::Ack { nonce_ack: rng.u32() },
                        1 => RFrame::SynAck { nonce_ack: rng.u32(), nonce: rng.u32(), max_receive_rate: 1, max_packet_size: 1, max_receive_alloc: 1 },
                        2 => RFrame::Error { nonce_ack: rng.u32(), error: rng.below(3) as u8 },
                        3 => RFrame::Disconnect,
                        4 => RFrame::DisconnectAck,
                        5 => RFrame::Sync { next_frame_id: Some(rng.u32()), next_packet_id: Some(rng.u32() & PID_MASK) },
                        _ => RFrame::Acks { frame_window_base_id: rng.u32(), packet_window_base_id: rng.u32() & PID_MASK, groups: vec![] },
                    };
                    (encode(&f), "stray-frame")
                }
            };
            plan.push((t, a, bytes, label));
        }
    }
    // flooders: a valid SYN followed by hundreds of small frames of one type (each reply the
    // server might be tempted to send is larger than the 5..25-byte frame that provoked it)
    for a in 0..n_addr {
        if !rng.chance(0.3) {
            continue;
        }
        only_undersized[a] = false;
        let t0 = rng.range(0, 5000) * MS;
        let nonce = rng.u32();
        plan.push((t0, a, encode(&RFrame::Syn { version: 3, nonce, max_receive_rate: 1_000_000, max_packet_size: 1000, max_receive_alloc: 1_000_000 }), "valid-syn-fresh-nonce"));
        let kind = rng.below(9);
        let n = rng.range(50, 400);
        let gap = rng.range(5, 60) * MS;
        for k in 0..n {
            let f = match kind {
                // what a real client whose handshake ACK was lost would send next: connection frames
                // numbered from the nonce of its own SYN (which proves nothing about its address)
                7 => RFrame::Data { sequence_id: nonce.wrapping_add(k as u32 / 4), nonce: rng.chance(0.5), datagrams: vec![] },
                8 => if k % 2 == 0 { RFrame::Sync { next_frame_id: Some(nonce.wrapping_add(k as u32 / 8)), next_packet_id: Some(nonce & PID_MASK) } } else { RFrame::Acks { frame_window_base_id: nonce, packet_window_base_id: nonce & PID_MASK, groups: vec![] } },
                0 => RFrame::Ack { nonce_ack: rng.u32() },
                1 => RFrame::Disconnect,
                2 => RFrame::DisconnectAck,
                3 => RFrame::Sync { next_frame_id: None, next_packet_id: None },
                4 => RFrame::Acks { frame_window_base_id: rng.u32(), packet_window_base_id: rng.u32() & PID_MASK, groups: vec![] },
                5 => RFrame::Error { nonce_ack: rng.u32(), error: rng.below(3) as u8 },
                _ => RFrame::Data { sequence_id: rng.u32(), nonce: false, datagrams: vec![] },
            };
            plan.push((t0 + (k + 1) * gap, a, encode(&f), "stray-frame"));
        }
        w.c.inc("amp_flooder_addresses");
    }
    // slow drip: a valid SYN, then one small frame every 5..20 s for minutes — whatever keeps a
    // pending handshake (and its SYN-ACK resends) alive beyond its 22 s shows after two minutes
    let drip = long_run || Rng::new(seed ^ 0xd419).chance(0.12);
    if drip {
        let mut drng = Rng::new(seed ^ 0xd41a);
        for a in 0..n_addr {
            if !drng.chance(0.4) {
                continue;
            }
            only_undersized[a] = false;
            let t0 = drng.range(0, 5000) * MS;
            let nonce = drng.u32();
            plan.push((t0, a, encode(&RFrame::Syn { version: 3, nonce, max_receive_rate: 1_000_000, max_packet_size: 1000, max_receive_alloc: 1_000_000 }), "valid-syn-fresh-nonce"));
            let kind = drng.below(5);
            let gap = drng.range(5, 21) * SEC;
            let mut t = t0 + gap;
            while t < 560 * SEC {
                let f = match kind {
                    0 => RFrame::Disconnect,
                    1 => RFrame::Ack { nonce_ack: drng.u32() },
                    2 => RFrame::Data { sequence_id: nonce.wrapping_add(1), nonce: false, datagrams: vec![] },
                    3 => RFrame::Sync { next_frame_id: None, next_packet_id: None },
                    _ => RFrame::DisconnectAck,
                };
                plan.push((t, a, encode(&f), "stray-frame"));
                t += gap;
            }
            w.c.inc("amp_slow_drip_addresses");
        }
    }
    // on-path flooders: an address that does receive the server's SYN-ACK and answers it with the
    // right nonce, again and again (100..3000 ACKs of 9 bytes). At a server with room the first one
    // completes the handshake; at a full server it is refused, the handshake is NOT complete, and
    // whatever the server says to the others must stay below what the address has sent
    let mut ack_flooders: Vec<(usize, u64, u64, u64)> = Vec::new(); // (address index, ACKs left, gap, next time)
    {
        let mut frng = Rng::new(seed ^ 0xacf1);
        for a in 0..n_addr {
            if frng.chance(if full { 0.5 } else { 0.15 }) {
                only_undersized[a] = false;
                let t0 = if late_honest { frng.range(0, 400) * MS } else { frng.range(0, 8000) * MS };
                plan.push((t0, a, encode(&RFrame::Syn { version: 3, nonce: frng.u32(), max_receive_rate: 1_000_000, max_packet_size: 1000, max_receive_alloc: 1_000_000 }), "valid-syn-fresh-nonce"));
                let first_ack = if late_honest { 1200 * MS + frng.range(0, 2000) * MS } else { t0 + frng.range(20, 300) * MS };
                ack_flooders.push((a, *frng.pick(&[100u64, 1500, 3000]), frng.range(1, 8) * MS, first_ack));
                w.c.inc("amp_valid_ack_flooders");
            }
        }
    }
    plan.sort_by_key(|p| p.0);
    let addr_of = |a: usize| client_addr(300 + a);
    for a in 0..n_addr {
        w.known_addrs.push(addr_of(a));
    }
    let mut pi = 0;
    let horizon = if long_run || drip { 600 * SEC } else { 55 * SEC };
    let greet = *rng.pick(&[0usize, 2, 8]);
    let mut greeted = 0usize;
    // (time, length) of the pauses in the server's stepping; timers that come due meanwhile are
    // all handled by one late step
    let mut hr = Rng::new(seed ^ 0x41cc);
    let mut hiccups: Vec<(u64, u64)> = Vec::new();
    if long_run || hr.chance(0.3) {
        for _ in 0..hr.range(1, 4) {
            hiccups.push((hr.range(0, 45_000) * MS, *hr.pick(&[2100u64, 2600, 4500, 9000, 23_000]) * MS));
        }
        hiccups.sort();
    }
    let mut hiccup_i = 0usize;
    let horizon = if hiccups.is_empty() { horizon } else { horizon.max(200 * SEC) };
    while w.now_ns <= horizon && !w.panicked {
        while pi < plan.len() && plan[pi].0 <= w.now_ns {
            let (_, a, ref bytes, label) = plan[pi];
            w.c.inc(match label {
                "valid-syn-same-nonce" => "amp_valid_syn_same_nonce",
                "valid-syn-fresh-nonce" => "amp_valid_syn_fresh_nonce",
                "wrong-version-syn" => "amp_wrong_version_syn",
                "config-refused-syn" => "amp_config_refused_syn",
                "undersized-syn" => "amp_undersized_syn",
                "oversized" => "amp_oversized",
                _ => "amp_stray_frame",
            });
            w.inject(addr_of(a), srv, bytes.clone(), 0);
            pi += 1;
        }
        if honest_pending && w.now_ns >= 500 * MS {
            honest_pending = false;
            for k in 0..3 {
                w.connect_client(Default::default(), client_addr(k), (10 * MS, 10 * MS), None);
            }
            w.c.inc("amp_servers_filled_after_handshakes_were_admitted");
        }
        for fl in ack_flooders.iter_mut() {
            if fl.1 > 0 && fl.3 <= w.now_ns {
                if let Some(&n) = w.synack_nonces.get(&addr_of(fl.0)).and_then(|v| v.last()) {
                    w.inject(addr_of(fl.0), srv, encode(&RFrame::Ack { nonce_ack: n }), 0);
                    w.c.inc("amp_valid_nonce_acks");
                    fl.1 -= 1;
                }
                fl.3 = w.now_ns + fl.2;
            }
        }
        // an application that stalls: the server is not stepped for a few seconds now and then
        if hiccup_i < hiccups.len() && w.now_ns >= hiccups[hiccup_i].0 {
            w.server.next_step_ns = w.server.next_step_ns.max(w.now_ns + hiccups[hiccup_i].1);
            hiccup_i += 1;
            w.c.inc("amp_server_hiccups");
        }
        let who = match w.step_next() {
            Some(x) => x,
            None => break,
        };
        // the server application greets whatever it believes to be a new connection
        if who.is_none() && greet > 0 {
            let fresh: Vec<SocketAddr> = w.server.events.iter().skip(greeted).filter(|(_, e)| e.ev == Ev::Connect).map(|(a, _)| *a).collect();
            greeted = w.server.events.len();
            for a in fresh {
                for _ in 0..greet {
                    w.server_send(a, 1000, 0, 3);
                }
                w.c.inc("amp_connections_greeted");
            }
        }
    }
    // undersized connection requests are ignored entirely
    for a in 0..n_addr {
        if only_undersized[a] {
            let sent = w.bytes.get(&addr_of(a)).map_or(0, |b| b.1);
            w.c.inc("c18_undersized_only_addresses_checked");
            if sent > 0 {
                w.viol("C18", "reaction-to-undersized-syn", format!("the server sent {} bytes to {} which only ever sent SYN-typed datagrams shorter than 1472 bytes", sent, addr_of(a)));
            }
        }
    }
    let mut replied = 0;
    let mut worst_ratio = 0.0f64;
    for a in 0..n_addr {
        if let Some((i, o)) = w.bytes.get(&addr_of(a)) {
            if *o > 0 {
                replied += 1;
                worst_ratio = worst_ratio.max(*o as f64 / (*i).max(1) as f64);
            }
        }
    }
    w.c.add("c18_addresses_that_got_a_reply", replied);
    w.c.max("max_reply_ratio_permille", (worst_ratio * 1000.0) as i128);
    let nontrivial = replied >= 1;
    let sample = if seed % 61 == 0 {
        Some(J::obj().with("addresses", J::u(n_addr)).with("datagrams", J::u(plan.len())).with("server_full", J::Bool(full)).with("first", J::Arr(plan.iter().take(10).map(|p| J::s(&format!("t={}ms from #{} {} ({} bytes)", p.0 / MS, p.1, p.3, p.2.len()))).collect())))
    } else {
        None
    };
    w.finish();
    world_out(out, &mut w, nontrivial, mix(seed, n_addr as u64), sample);
}

// =============================================================================================
// C03 at endpoint level: hostile connected peers and spoofed strangers

fn snapshot_of(hc: &uflow::verif::HalfConnection) -> crate::hostile::Snapshot {
    crate::hostile::Snapshot { rx_frame_base: hc.verif_rx_frame_base_id(), rx_packet_base: hc.verif_rx_packet_base_id(), tx_frame: hc.verif_tx_frame_ids(), tx_packet: hc.verif_tx_packet_ids(), window: 4096, log_base: hc.verif_tx_frame_ids().1.wrapping_sub(hc.verif_frame_log_len() as u32) }
}

pub fn run_ep_hostile(seed: u64, params: &Params, out: &mut ScnOut) {
    let mut rng = Rng::new(seed);
    let verbose = params.flag("verbose");
    let attack_server = rng.chance(0.6);
    let mut w = World::new(seed, NetCfg::ideal(rng.range(0, 20)), verbose);
    let frames = params.u64("frames", 600);
    let srv = w.server.addr;
    let limits = [0u32, 1, 22, 23, 46, 1471, 1472, 1 << 20, u32::MAX];
    let mut handled = 0u64;
    if attack_server {
        let scfg = uflow::server::Config { max_total_connections: 64, max_active_connections: 16, enable_handshake_errors: rng.chance(0.5), endpoint_config: uflow::EndpointConfig { max_packet_size: 50_000, ..Default::default() } };
        w.bind_server(scfg, (10 * MS, 10 * MS));
        // an honest client that keeps exchanging packets throughout
        let honest = w.connect_client(uflow::EndpointConfig { max_packet_size: 50_000, ..Default::default() }, client_addr(0), (10 * MS, 10 * MS), None);
        // the hostile peer completes the handshake by hand
        let evil = client_addr(666);
        w.known_addrs.push(evil);
        let evil_nonce = if rng.chance(0.5) { rng.u32() } else { *rng.pick(&[0u32, u32::MAX, 0xFFFFF, 0xFFFFFFF0]) };
        let syn = RFrame::Syn { version: 3, nonce: evil_nonce, max_receive_rate: *rng.pick(&limits), max_packet_size: *rng.pick(&[0u32, 1, 1000, 1_000_000]), max_receive_alloc: *rng.pick(&[1_000_000u32, u32::MAX, 50_000]) };
        w.inject(evil, srv, encode(&syn), 0);
        let mut connected_evil = false;
        let mut next_in_order = evil_nonce.wrapping_sub(1);
        let mut captured: Vec<Vec<u8>> = Vec::new();
        let mut wire_seen = 0;
        let mut sent = 0u64;
        let mut honest_pings = 0u64;
        let horizon = 60 * SEC;
        while w.now_ns <= horizon && !w.panicked {
            let who = match w.step_next() {
                Some(x) => x,
                None => break,
            };
            // harvest what the server sends to the hostile peer
            while wire_seen < w.wire.len() {
                let r = w.wire[wire_seen].clone();
                wire_seen += 1;
                if r.dst == evil && r.src == srv {
                    if let Some(RFrame::SynAck { nonce, .. }) = r.frame {
                        if !connected_evil {
                            connected_evil = true;
                            w.inject(evil, srv, encode(&RFrame::Ack { nonce_ack: nonce }), MS);
                        }
                    } else if let Some(ref f) = r.frame {
                        if captured.len() < 32 {
                            captured.push(encode(f));
                        }
                    }
                }
            }
            if who == None && connected_evil && sent < frames {
                // a few hostile frames per server step, composed against the victim's live state
                let snap = w.server.server.as_ref().and_then(|s| s.client(&evil)).and_then(|rc| rc.borrow().verif_half_connection().map(snapshot_of));
                if let Some(snap) = snap {
                    for _ in 0..rng.range(0, 4) {
                        let mut class = "";
                        let b = crate::hostile::hostile_frame(&mut rng, &snap, &mut next_in_order, &captured, true, &mut class);
                        w.inject(evil, srv, b, rng.below(3) * MS);
                        sent += 1;
                        handled += 1;
                    }
                } else {
                    // not (or no longer) connected: handshake-level garbage from the same address
                    let f = crate::codec::gen_frame(&mut rng, true);
                    w.inject(evil, srv, encode(&f), 0);
                    sent += 1;
                }
                // spoofed strangers
                if rng.chance(0.3) {
                    let f = crate::codec::gen_frame(&mut rng, true);
                    w.inject(client_addr(700 + rng.below(50) as usize), srv, encode(&f), 0);
                }
            }
            // the honest client keeps pinging
            if let (Some(i), Some(hi)) = (who, honest) {
                if i == hi && w.clients[hi].state == 1 && rng.chance(0.1) {
                    w.client_send(hi, 100, 1, 3);
                    honest_pings += 1;
                }
            }
        }
        // the honest connection survived and its packets arrived
        if let Some(hi) = honest {
            let a = w.clients[hi].addr;
            let got = w.server.events.iter().filter(|(x, e)| *x == a && matches!(e.ev, Ev::Receive(..))).count() as u64;
            let ended = w.clients[hi].events.iter().any(|e| matches!(e.ev, Ev::Error(_) | Ev::Disconnect));
            w.c.inc("c03_honest_bystanders_checked");
            if !w.panicked && (ended || (honest_pings > 20 && got + 10 < honest_pings)) {
                w.viol("C03", "bystander-connection-harmed", format!("while a hostile connected peer and spoofed strangers sent {} frames, the honest client's connection {} ({} of {} Reliable packets delivered)", sent, if ended { "ended" } else { "stopped delivering" }, got, honest_pings));
            }
        }
        // and a fresh client can still connect afterwards
        if !w.panicked {
            let ni = w.connect_client(Default::default(), client_addr(5), (10 * MS, 10 * MS), None);
            let until = w.now_ns + 30 * SEC;
            while w.now_ns <= until && !w.panicked {
                if w.step_next().is_none() {
                    break;
                }
                if let Some(ni) = ni {
                    if w.clients[ni].state == 1 {
                        break;
                    }
                }
            }
            if let Some(ni) = ni {
                w.c.inc("c03_post_attack_connects_checked");
                if !w.panicked && w.clients[ni].state != 1 {
                    w.viol("C03", "server-unusable-after-attack", format!("after the hostile phase a new honest client could not connect within 30 s (client events: {:?})", w.clients[ni].events.iter().map(|e| format!("{:?}", e.ev)).collect::<Vec<_>>()));
                }
            }
        }
    } else {
        // a Client facing a hostile server: the harness answers the SYN itself
        let victim = w.connect_client(uflow::EndpointConfig { max_packet_size: 50_000, ..Default::default() }, client_addr(0), (10 * MS, 10 * MS), None);
        let vi = match victim {
            Some(v) => v,
            None => {
                w.finish();
                world_out(out, &mut w, false, 0, None);
                return;
            }
        };
        let vaddr = w.clients[vi].addr;
        let my_nonce = if rng.chance(0.5) { rng.u32() } else { *rng.pick(&[0u32, u32::MAX, 0xFFFFF]) };
        let mut answered = false;
        let mut wire_seen = 0;
        let mut next_in_order = my_nonce.wrapping_sub(1);
        let mut captured: Vec<Vec<u8>> = Vec::new();
        let mut sent = 0u64;
        let horizon = 40 * SEC;
        while w.now_ns <= horizon && !w.panicked {
            if w.step_next().is_none() {
                break;
            }
            while wire_seen < w.wire.len() {
                let r = w.wire[wire_seen].clone();
                wire_seen += 1;
                if r.src == vaddr {
                    if let Some(RFrame::Syn { nonce, .. }) = r.frame {
                        if !answered {
                            answered = true;
                            let f = RFrame::SynAck { nonce_ack: nonce, nonce: my_nonce, max_receive_rate: *rng.pick(&limits), max_packet_size: *rng.pick(&[0u32, 1, 50_000, u32::MAX]), max_receive_alloc: *rng.pick(&[0u32, 1, 1448, 1_000_000, u32::MAX]) };
                            w.inject(srv, vaddr, encode(&f), MS);
                        }
                    } else if let Some(ref f) = r.frame {
                        if captured.len() < 32 {
                            captured.push(encode(f));
                        }
                    }
                }
            }
            if w.clients[vi].state == 1 && sent < frames {
                if rng.chance(0.3) {
                    w.client_send(vi, rng.range(12, 3000) as usize, rng.below(64) as usize, rng.below(4) as u8);
                }
                let snap = w.clients[vi].client.as_ref().and_then(|c| c.verif_half_connection().map(snapshot_of));
                if let Some(snap) = snap {
                    for _ in 0..rng.range(0, 4) {
                        let mut class = "";
                        let b = crate::hostile::hostile_frame(&mut rng, &snap, &mut next_in_order, &captured, true, &mut class);
                        w.inject(srv, vaddr, b, rng.below(3) * MS);
                        sent += 1;
                        handled += 1;
                    }
                }
            }
        }
        w.c.inc("c03_hostile_server_sessions");
    }
    w.c.add("hostile_frames", handled as i128);
    let nontrivial = handled >= 20;
    let sample = if seed % 61 == 0 { Some(history_sample(&w, if attack_server { "hostile peer against a Server" } else { "hostile server against a Client" })) } else { None };
    w.finish();
    world_out(out, &mut w, nontrivial, mix(seed, attack_server as u64), sample);
}
