// Independent reference for the uflow wire format, written from the format comments in
// src/frame/serial/{mod,build,crc}.rs (not from the reader/writer code paths):
//
//   frame   = type:u8  payload  crc32:be32           (crc over type+payload)
//   types   : 0 SYN (payload 1467 B, padded), 1 SYN-ACK (20), 2 ACK (4), 3 ERROR (5),
//             4 DISCONNECT (0), 5 DISCONNECT-ACK (0), 10 DATA, 11 SYNC (9), 12 ACK-frame
//   DATA    = seq:be32  (nonce<<7 | count:7)  datagram*
//   datagram: micro 0CDDDDDD SSSSCCCC S8 S8 CWWWWWWW H8            (L==0, D<64, W<128, H<256)
//             small 10CCCCCC D8 0000SSSS S8 S8 W16 H16             (L==0, D<256)
//             large 11CCCCCC D16 0000SSSS S8 S8 W16 H16 F16 L16
//   SYNC    = mode:u8 (bit0 frame id present, bit1 packet id present) frame:be32 packet:be32
//   ACKS    = frame_base:be32 packet_base:be32 count:be16 (base:be32 bitfield:be32 nonce:u8)*
//   CRC     : polynomial 0x132c00699, reflected, init !0, final !.

pub const MAX_FRAME_SIZE: usize = 1472;
pub const MAX_FRAGMENT_SIZE: usize = 1448;
pub const PID_MASK: u32 = 0xFFFFF;
pub const PID_SPAN: u32 = 0x100000;

pub fn pid_add(a: u32, b: u32) -> u32 {
    a.wrapping_add(b) & PID_MASK
}
pub fn pid_sub(a: u32, b: u32) -> u32 {
    a.wrapping_sub(b) & PID_MASK
}

fn reverse32(mut v: u32) -> u32 {
    let mut r = 0u32;
    for _ in 0..32 {
        r = (r << 1) | (v & 1);
        v >>= 1;
    }
    r
}

/// Bitwise CRC derived from the polynomial x^32+x^29+x^28+x^25+x^23+x^22+x^10+x^9+x^7+x^4+x^3+1.
pub fn crc_ref(data: &[u8]) -> u32 {
    // polynomial bits without the x^32 term
    let poly: u32 = (1 << 29) | (1 << 28) | (1 << 25) | (1 << 23) | (1 << 22) | (1 << 10) | (1 << 9) | (1 << 7) | (1 << 4) | (1 << 3) | 1;
    let rpoly = reverse32(poly);
    let mut reg: u32 = !0;
    for &b in data {
        reg ^= b as u32;
        for _ in 0..8 {
            reg = if reg & 1 != 0 { (reg >> 1) ^ rpoly } else { reg >> 1 };
        }
    }
    !reg
}

#[derive(Clone, Debug, PartialEq)]
pub struct RDatagram {
    pub sequence_id: u32,
    pub channel_id: u8,
    pub window_parent_lead: u16,
    pub channel_parent_lead: u16,
    pub fragment_id: u16,
    pub fragment_id_last: u16,
    pub data: Vec<u8>,
}

#[derive(Clone, Debug, PartialEq)]
pub struct RAckGroup {
    pub base_id: u32,
    pub bitfield: u32,
    pub nonce: bool,
}

#[derive(Clone, Debug, PartialEq)]
pub enum RFrame {
    Syn { version: u8, nonce: u32, max_receive_rate: u32, max_packet_size: u32, max_receive_alloc: u32 },
    SynAck { nonce_ack: u32, nonce: u32, max_receive_rate: u32, max_packet_size: u32, max_receive_alloc: u32 },
    Ack { nonce_ack: u32 },
    Error { nonce_ack: u32, error: u8 }, // 0 version, 1 config, 2 server full
    Disconnect,
    DisconnectAck,
    Data { sequence_id: u32, nonce: bool, datagrams: Vec<RDatagram> },
    Sync { next_frame_id: Option<u32>, next_packet_id: Option<u32> },
    Acks { frame_window_base_id: u32, packet_window_base_id: u32, groups: Vec<RAckGroup> },
}

impl RFrame {
    pub fn type_name(&self) -> &'static str {
        match self {
            RFrame::Syn { .. } => "syn",
            RFrame::SynAck { .. } => "synack",
            RFrame::Ack { .. } => "ack",
            RFrame::Error { .. } => "error",
            RFrame::Disconnect => "disconnect",
            RFrame::DisconnectAck => "disconnectack",
            RFrame::Data { .. } => "data",
            RFrame::Sync { .. } => "sync",
            RFrame::Acks { .. } => "acks",
        }
    }
}

fn be32(v: u32, out: &mut Vec<u8>) {
    out.extend_from_slice(&v.to_be_bytes());
}
fn be16(v: u16, out: &mut Vec<u8>) {
    out.extend_from_slice(&v.to_be_bytes());
}
fn rd32(d: &[u8]) -> u32 {
    u32::from_be_bytes([d[0], d[1], d[2], d[3]])
}
fn rd16(d: &[u8]) -> u16 {
    u16::from_be_bytes([d[0], d[1]])
}

#[derive(Clone, Copy, PartialEq, Debug)]
pub enum DgEnc {
    Canonical,
    Micro,
    Small,
    Large,
}

pub fn canonical_enc(dg: &RDatagram) -> DgEnc {
    if dg.fragment_id_last == 0 {
        if dg.data.len() < 64 && dg.window_parent_lead < 128 && dg.channel_parent_lead < 256 {
            return DgEnc::Micro;
        } else if dg.data.len() < 256 {
            return DgEnc::Small;
        }
    }
    DgEnc::Large
}

/// Encodes one datagram. `enc` may force a (representable) non-canonical header.
pub fn encode_datagram(dg: &RDatagram, enc: DgEnc, out: &mut Vec<u8>) {
    let enc = if enc == DgEnc::Canonical { canonical_enc(dg) } else { enc };
    let c = dg.channel_id;
    let s = dg.sequence_id;
    let d = dg.data.len();
    match enc {
        DgEnc::Micro => {
            out.push((d as u8 & 0x3F) | ((c & 0x10) << 2));
            out.push((((s >> 16) as u8 & 0x0F) << 4) | (c & 0x0F));
            out.push((s >> 8) as u8);
            out.push(s as u8);
            out.push((dg.window_parent_lead as u8 & 0x7F) | ((c & 0x20) << 2));
            out.push(dg.channel_parent_lead as u8);
        }
        DgEnc::Small => {
            out.push(0x80 | (c & 0x3F));
            out.push(d as u8);
            out.push((s >> 16) as u8 & 0x0F);
            out.push((s >> 8) as u8);
            out.push(s as u8);
            be16(dg.window_parent_lead, out);
            be16(dg.channel_parent_lead, out);
        }
        DgEnc::Large | DgEnc::Canonical => {
            out.push(0xC0 | (c & 0x3F));
            be16(d as u16, out);
            out.push((s >> 16) as u8 & 0x0F);
            out.push((s >> 8) as u8);
            out.push(s as u8);
            be16(dg.window_parent_lead, out);
            be16(dg.channel_parent_lead, out);
            be16(dg.fragment_id, out);
            be16(dg.fragment_id_last, out);
        }
    }
    out.extend_from_slice(&dg.data);
}

pub fn datagram_encoded_size(dg: &RDatagram) -> usize {
    dg.data.len()
        + match canonical_enc(dg) {
            DgEnc::Micro => 6,
            DgEnc::Small => 9,
            _ => 14,
        }
}

/// Body (type + payload) of the canonical encoding.
pub fn encode_body(f: &RFrame) -> Vec<u8> {
    let mut out = Vec::new();
    match f {
        RFrame::Syn { version, nonce, max_receive_rate, max_packet_size, max_receive_alloc } => {
            out.push(0);
            out.push(*version);
            be32(*nonce, &mut out);
            be32(*max_receive_rate, &mut out);
            be32(*max_packet_size, &mut out);
            be32(*max_receive_alloc, &mut out);
            out.resize(MAX_FRAME_SIZE - 4, 0);
        }
        RFrame::SynAck { nonce_ack, nonce, max_receive_rate, max_packet_size, max_receive_alloc } => {
            out.push(1);
            be32(*nonce_ack, &mut out);
            be32(*nonce, &mut out);
            be32(*max_receive_rate, &mut out);
            be32(*max_packet_size, &mut out);
            be32(*max_receive_alloc, &mut out);
        }
        RFrame::Ack { nonce_ack } => {
            out.push(2);
            be32(*nonce_ack, &mut out);
        }
        RFrame::Error { nonce_ack, error } => {
            out.push(3);
            be32(*nonce_ack, &mut out);
            out.push(*error);
        }
        RFrame::Disconnect => out.push(4),
        RFrame::DisconnectAck => out.push(5),
        RFrame::Data { sequence_id, nonce, datagrams } => {
            out.push(10);
            be32(*sequence_id, &mut out);
            out.push(((*nonce as u8) << 7) | (datagrams.len() as u8 & 0x7F));
            for dg in datagrams {
                encode_datagram(dg, DgEnc::Canonical, &mut out);
            }
        }
        RFrame::Sync { next_frame_id, next_packet_id } => {
            out.push(11);
            out.push((next_frame_id.is_some() as u8) | ((next_packet_id.is_some() as u8) << 1));
            be32(next_frame_id.unwrap_or(0), &mut out);
            be32(next_packet_id.unwrap_or(0), &mut out);
        }
        RFrame::Acks { frame_window_base_id, packet_window_base_id, groups } => {
            out.push(12);
            be32(*frame_window_base_id, &mut out);
            be32(*packet_window_base_id, &mut out);
            be16(groups.len() as u16, &mut out);
            for g in groups {
                be32(g.base_id, &mut out);
                be32(g.bitfield, &mut out);
                out.push(g.nonce as u8);
            }
        }
    }
    out
}

pub fn seal(mut body: Vec<u8>) -> Vec<u8> {
    let crc = crc_ref(&body);
    be32(crc, &mut body);
    body
}

pub fn encode(f: &RFrame) -> Vec<u8> {
    seal(encode_body(f))
}

/// Is this frame value representable on the wire (fields within their bit widths)?
pub fn representable(f: &RFrame) -> bool {
    match f {
        RFrame::Error { error, .. } => *error <= 2,
        RFrame::Data { datagrams, .. } => {
            datagrams.len() <= 127
                && datagrams.iter().all(|dg| {
                    dg.sequence_id <= PID_MASK
                        && dg.channel_id < 64
                        && dg.data.len() <= 65535
                        && (dg.fragment_id_last != 0 || dg.fragment_id == 0)
                })
        }
        RFrame::Acks { groups, .. } => groups.len() <= 65535,
        _ => true,
    }
}

#[derive(Clone, Debug, PartialEq)]
pub enum Class {
    /// a canonical, well-formed encoding: the reader must return exactly this frame
    MustAccept(RFrame),
    /// consistent but non-canonical (non-zero padding, unused bits set, non-minimal header,
    /// fragment id without fragments): the property does not pin the outcome; if the reader
    /// accepts, it must return this frame
    DontCare(RFrame),
    MustReject(&'static str),
}

fn decode_datagram(d: &[u8]) -> Result<(RDatagram, usize, bool), &'static str> {
    if d.len() < 6 {
        return Err("datagram header truncated");
    }
    if d[0] & 0x80 == 0 {
        let len = (d[0] & 0x3F) as usize;
        if d.len() < 6 + len {
            return Err("micro datagram truncated");
        }
        let channel_id = ((d[4] >> 2) & 0x20) | ((d[0] >> 2) & 0x10) | (d[1] & 0x0F);
        let sequence_id = (((d[1] & 0xF0) as u32) << 12) | ((d[2] as u32) << 8) | d[3] as u32;
        let dg = RDatagram {
            sequence_id,
            channel_id,
            window_parent_lead: (d[4] & 0x7F) as u16,
            channel_parent_lead: d[5] as u16,
            fragment_id: 0,
            fragment_id_last: 0,
            data: d[6..6 + len].to_vec(),
        };
        Ok((dg, 6 + len, true))
    } else if d[0] & 0x40 == 0 {
        if d.len() < 9 {
            return Err("small datagram header truncated");
        }
        let len = d[1] as usize;
        if d.len() < 9 + len {
            return Err("small datagram truncated");
        }
        let dg = RDatagram {
            sequence_id: (((d[2] & 0x0F) as u32) << 16) | ((d[3] as u32) << 8) | d[4] as u32,
            channel_id: d[0] & 0x3F,
            window_parent_lead: rd16(&d[5..]),
            channel_parent_lead: rd16(&d[7..]),
            fragment_id: 0,
            fragment_id_last: 0,
            data: d[9..9 + len].to_vec(),
        };
        let canonical = d[2] & 0xF0 == 0 && canonical_enc(&dg) == DgEnc::Small;
        Ok((dg, 9 + len, canonical))
    } else {
        if d.len() < 14 {
            return Err("large datagram header truncated");
        }
        let len = rd16(&d[1..]) as usize;
        if d.len() < 14 + len {
            return Err("large datagram truncated");
        }
        let dg = RDatagram {
            sequence_id: (((d[3] & 0x0F) as u32) << 16) | ((d[4] as u32) << 8) | d[5] as u32,
            channel_id: d[0] & 0x3F,
            window_parent_lead: rd16(&d[6..]),
            channel_parent_lead: rd16(&d[8..]),
            fragment_id: rd16(&d[10..]),
            fragment_id_last: rd16(&d[12..]),
            data: d[14..14 + len].to_vec(),
        };
        let canonical = d[3] & 0xF0 == 0
            && canonical_enc(&dg) == DgEnc::Large
            && (dg.fragment_id_last != 0 || dg.fragment_id == 0);
        Ok((dg, 14 + len, canonical))
    }
}

/// Classifies an arbitrary byte string.
pub fn classify(b: &[u8]) -> Class {
    if b.len() < 5 {
        return Class::MustReject("shorter than type+crc");
    }
    let n = b.len();
    if crc_ref(&b[..n - 4]) != rd32(&b[n - 4..]) {
        return Class::MustReject("bad crc");
    }
    let p = &b[1..n - 4];
    let mut canonical = true;
    let frame = match b[0] {
        0 => {
            if p.len() != MAX_FRAME_SIZE - 5 {
                return Class::MustReject("syn: wrong length");
            }
            if p[17..].iter().any(|&x| x != 0) {
                canonical = false;
            }
            RFrame::Syn {
                version: p[0],
                nonce: rd32(&p[1..]),
                max_receive_rate: rd32(&p[5..]),
                max_packet_size: rd32(&p[9..]),
                max_receive_alloc: rd32(&p[13..]),
            }
        }
        1 => {
            if p.len() != 20 {
                return Class::MustReject("synack: wrong length");
            }
            RFrame::SynAck {
                nonce_ack: rd32(p),
                nonce: rd32(&p[4..]),
                max_receive_rate: rd32(&p[8..]),
                max_packet_size: rd32(&p[12..]),
                max_receive_alloc: rd32(&p[16..]),
            }
        }
        2 => {
            if p.len() != 4 {
                return Class::MustReject("ack: wrong length");
            }
            RFrame::Ack { nonce_ack: rd32(p) }
        }
        3 => {
            if p.len() != 5 {
                return Class::MustReject("error: wrong length");
            }
            if p[4] > 2 {
                return Class::MustReject("error: unknown enum value");
            }
            RFrame::Error { nonce_ack: rd32(p), error: p[4] }
        }
        4 => {
            if !p.is_empty() {
                return Class::MustReject("disconnect: wrong length");
            }
            RFrame::Disconnect
        }
        5 => {
            if !p.is_empty() {
                return Class::MustReject("disconnectack: wrong length");
            }
            RFrame::DisconnectAck
        }
        10 => {
            if p.len() < 5 {
                return Class::MustReject("data: header truncated");
            }
            let count = (p[4] & 0x7F) as usize;
            let mut rest = &p[5..];
            let mut datagrams = Vec::new();
            for _ in 0..count {
                match decode_datagram(rest) {
                    Ok((dg, used, canon)) => {
                        canonical &= canon;
                        datagrams.push(dg);
                        rest = &rest[used..];
                    }
                    Err(why) => return Class::MustReject(why),
                }
            }
            if !rest.is_empty() {
                return Class::MustReject("data: trailing bytes");
            }
            RFrame::Data { sequence_id: rd32(p), nonce: p[4] & 0x80 != 0, datagrams }
        }
        11 => {
            if p.len() != 9 {
                return Class::MustReject("sync: wrong length");
            }
            let mode = p[0];
            if mode & !0x03 != 0 {
                canonical = false;
            }
            let f = rd32(&p[1..]);
            let k = rd32(&p[5..]);
            if (mode & 1 == 0 && f != 0) || (mode & 2 == 0 && k != 0) {
                canonical = false;
            }
            RFrame::Sync {
                next_frame_id: if mode & 1 != 0 { Some(f) } else { None },
                next_packet_id: if mode & 2 != 0 { Some(k) } else { None },
            }
        }
        12 => {
            if p.len() < 10 {
                return Class::MustReject("acks: header truncated");
            }
            let count = rd16(&p[8..]) as usize;
            if p.len() != 10 + 9 * count {
                return Class::MustReject("acks: group count inconsistent with length");
            }
            let mut groups = Vec::new();
            for i in 0..count {
                let g = &p[10 + 9 * i..];
                if g[8] > 1 {
                    canonical = false;
                }
                groups.push(RAckGroup { base_id: rd32(g), bitfield: rd32(&g[4..]), nonce: g[8] != 0 });
            }
            RFrame::Acks { frame_window_base_id: rd32(p), packet_window_base_id: rd32(&p[4..]), groups }
        }
        _ => return Class::MustReject("unknown frame type"),
    };
    if canonical {
        Class::MustAccept(frame)
    } else {
        Class::DontCare(frame)
    }
}

/// Decodes bytes the harness knows to be a well-formed frame (wire monitors).
pub fn decode(b: &[u8]) -> Option<RFrame> {
    match classify(b) {
        Class::MustAccept(f) | Class::DontCare(f) => Some(f),
        Class::MustReject(_) => None,
    }
}

// ---- conversion from the library's frame type (to compare reader output with the reference) ---

use uflow::verif::frame as uf;

pub fn from_uflow(f: &uf::Frame) -> RFrame {
    match f {
        uf::Frame::HandshakeSynFrame(x) => RFrame::Syn {
            version: x.version,
            nonce: x.nonce,
            max_receive_rate: x.max_receive_rate,
            max_packet_size: x.max_packet_size,
            max_receive_alloc: x.max_receive_alloc,
        },
        uf::Frame::HandshakeSynAckFrame(x) => RFrame::SynAck {
            nonce_ack: x.nonce_ack,
            nonce: x.nonce,
            max_receive_rate: x.max_receive_rate,
            max_packet_size: x.max_packet_size,
            max_receive_alloc: x.max_receive_alloc,
        },
        uf::Frame::HandshakeAckFrame(x) => RFrame::Ack { nonce_ack: x.nonce_ack },
        uf::Frame::HandshakeErrorFrame(x) => RFrame::Error {
            nonce_ack: x.nonce_ack,
            error: match x.error {
                uf::HandshakeErrorType::Version => 0,
                uf::HandshakeErrorType::Config => 1,
                uf::HandshakeErrorType::ServerFull => 2,
            },
        },
        uf::Frame::DisconnectFrame(_) => RFrame::Disconnect,
        uf::Frame::DisconnectAckFrame(_) => RFrame::DisconnectAck,
        uf::Frame::DataFrame(x) => RFrame::Data {
            sequence_id: x.sequence_id,
            nonce: x.nonce,
            datagrams: x
                .datagrams
                .iter()
                .map(|d| RDatagram {
                    sequence_id: d.sequence_id,
                    channel_id: d.channel_id,
                    window_parent_lead: d.window_parent_lead,
                    channel_parent_lead: d.channel_parent_lead,
                    fragment_id: d.fragment_id,
                    fragment_id_last: d.fragment_id_last,
                    data: d.data.to_vec(),
                })
                .collect(),
        },
        uf::Frame::SyncFrame(x) => RFrame::Sync { next_frame_id: x.next_frame_id, next_packet_id: x.next_packet_id },
        uf::Frame::AckFrame(x) => RFrame::Acks {
            frame_window_base_id: x.frame_window_base_id,
            packet_window_base_id: x.packet_window_base_id,
            groups: x.frame_acks.iter().map(|g| RAckGroup { base_id: g.base_id, bitfield: g.bitfield, nonce: g.nonce }).collect(),
        },
    }
}

pub fn to_uflow(f: &RFrame) -> uf::Frame {
    match f {
        RFrame::Syn { version, nonce, max_receive_rate, max_packet_size, max_receive_alloc } => {
            uf::Frame::HandshakeSynFrame(uf::HandshakeSynFrame {
                version: *version,
                nonce: *nonce,
                max_receive_rate: *max_receive_rate,
                max_packet_size: *max_packet_size,
                max_receive_alloc: *max_receive_alloc,
            })
        }
        RFrame::SynAck { nonce_ack, nonce, max_receive_rate, max_packet_size, max_receive_alloc } => {
            uf::Frame::HandshakeSynAckFrame(uf::HandshakeSynAckFrame {
                nonce_ack: *nonce_ack,
                nonce: *nonce,
                max_receive_rate: *max_receive_rate,
                max_packet_size: *max_packet_size,
                max_receive_alloc: *max_receive_alloc,
            })
        }
        RFrame::Ack { nonce_ack } => uf::Frame::HandshakeAckFrame(uf::HandshakeAckFrame { nonce_ack: *nonce_ack }),
        RFrame::Error { nonce_ack, error } => uf::Frame::HandshakeErrorFrame(uf::HandshakeErrorFrame {
            nonce_ack: *nonce_ack,
            error: match error {
                0 => uf::HandshakeErrorType::Version,
                1 => uf::HandshakeErrorType::Config,
                _ => uf::HandshakeErrorType::ServerFull,
            },
        }),
        RFrame::Disconnect => uf::Frame::DisconnectFrame(uf::DisconnectFrame {}),
        RFrame::DisconnectAck => uf::Frame::DisconnectAckFrame(uf::DisconnectAckFrame {}),
        RFrame::Data { sequence_id, nonce, datagrams } => uf::Frame::DataFrame(uf::DataFrame {
            sequence_id: *sequence_id,
            nonce: *nonce,
            datagrams: datagrams
                .iter()
                .map(|d| uf::Datagram {
                    sequence_id: d.sequence_id,
                    channel_id: d.channel_id,
                    window_parent_lead: d.window_parent_lead,
                    channel_parent_lead: d.channel_parent_lead,
                    fragment_id: d.fragment_id,
                    fragment_id_last: d.fragment_id_last,
                    data: d.data.clone().into_boxed_slice(),
                })
                .collect(),
        }),
        RFrame::Sync { next_frame_id, next_packet_id } => {
            uf::Frame::SyncFrame(uf::SyncFrame { next_frame_id: *next_frame_id, next_packet_id: *next_packet_id })
        }
        RFrame::Acks { frame_window_base_id, packet_window_base_id, groups } => uf::Frame::AckFrame(uf::AckFrame {
            frame_window_base_id: *frame_window_base_id,
            packet_window_base_id: *packet_window_base_id,
            frame_acks: groups.iter().map(|g| uf::AckGroup { base_id: g.base_id, bitfield: g.bitfield, nonce: g.nonce }).collect(),
        }),
    }
}
