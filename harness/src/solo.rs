//! One real sending `HalfConnection` driven through its API in ARBITRARY call order ("solo-api").
//!
//! hcsim always calls an endpoint the way `Client::step` does (flush, frames, step, receive, then
//! the application). The API allows more: `step()` twice in a row, `step()` again within the same
//! millisecond, `send()` between `step()` and `flush()`, several `flush()`es, none for a while.
//! Here the harness is the application AND the peer: it draws the next call at random — send
//! (any mode), step (after 0 / 0.3 / 0.9 / 1 / 5 / 33 ms), flush, or handing over the honest
//! acknowledgements that are due after a simulated round trip — and the boundary model of hcsim
//! (`model.rs`) follows along: TimeSensitive staleness counts `step()` calls, whatever the clock
//! says; `send_buffer_size()` is bounded after every call; every datagram on the wire is checked
//! against its submission; retransmissions against processed acknowledgements.

use crate::hcsim::{hc_config, SideCfg, MS};
use crate::model::{DirModel, Mode};
use crate::util::*;
use crate::wire::*;
use crate::{alloc, guarded, ScnOut};
use uflow::verif as uv;
use uflow::verif::Serialize;

struct VecSink<'a> {
    frames: &'a mut Vec<Vec<u8>>,
}
impl<'a> uv::FrameSink for VecSink<'a> {
    fn send(&mut self, frame_data: &[u8]) {
        let v = alloc::in_harness(|| frame_data.to_vec());
        self.frames.push(v);
    }
}

pub fn run_session(seed: u64, ops: usize, out: &mut ScnOut, verbose: bool) {
    let mut rng = Rng::new(seed);
    let window = *rng.pick(&[16u32, 256, 4096]);
    let rate = *rng.pick(&[20_000u32, 200_000, 2_000_000]);
    let peer_alloc = *rng.pick(&[6_000usize, 100_000, 1_000_000]);
    let nonce = match rng.below(3) {
        0 => 0xFFFFFu32.wrapping_sub(rng.below(60) as u32) | (rng.u32() << 20),
        1 => 0u32.wrapping_sub(rng.below(60) as u32),
        _ => rng.u32(),
    };
    let me = SideCfg { nonce, max_send_rate: rate, max_receive_rate: u32::MAX, rx_alloc: 100_000, keepalive: Some(5000) };
    let peer = SideCfg { nonce: rng.u32(), max_send_rate: u32::MAX, max_receive_rate: u32::MAX, rx_alloc: peer_alloc, keepalive: None };
    uv::time::set_virtual_ns(Some(0));
    uv::rng::set_seed(Some(mix(seed, 83)));
    let mut hc = guarded(11, || uv::HalfConnection::new(hc_config(&me, &peer, window)));
    let amb_chan = 63u8;
    let mut model = DirModel::new("solo", me.nonce, window, peer_alloc, amb_chan);
    let rtt_ns = *rng.pick(&[2u64, 20, 80]) * MS;
    let ts_p = *rng.pick(&[0.2, 0.5]);
    let max_len = *rng.pick(&[60usize, 1500, 4000]).min(&peer_alloc);
    let mut now: u64 = 0;
    let mut steps: u64 = 0;
    let mut uid: u64 = 0;
    // (due, frame id, nonce, packet base the receiver would report after it)
    let mut due: std::collections::VecDeque<(u64, u32, bool, Option<u32>)> = std::collections::VecDeque::new();
    // in-order, loss-free receiver: its packet window base is the first id not completely received
    let mut rx_complete_next = me.nonce & PID_MASK;
    let mut viol: Vec<Violation> = Vec::new();
    let mut stopped = false;
    let mut c = Counters::default();
    let mut trace: std::collections::VecDeque<String> = std::collections::VecDeque::new();
    macro_rules! call {
        ($label:expr, $what:expr, $body:expr) => {{
            let r = std::panic::catch_unwind(std::panic::AssertUnwindSafe(|| guarded($label, || $body)));
            alloc::set_tag(alloc::TAG_HARNESS);
            match r {
                Ok(v) => Some(v),
                Err(e) => {
                    let m = crate::panic_message(&e);
                    viol.push(Violation::new("C03", "panic", &format!("panic:{}", crate::panic_site(&m)), format!("{} panicked: {} (solo-api; last calls: {})", $what, m, trace.iter().cloned().collect::<Vec<_>>().join(" ; "))));
                    stopped = true;
                    None
                }
            }
        }};
    }
    macro_rules! note {
        ($s:expr) => {{
            if trace.len() >= 12 {
                trace.pop_front();
            }
            let s: String = $s;
            if verbose {
                eprintln!("[{:>9.3} ms] {}", now as f64 / 1e6, s);
            }
            trace.push_back(format!("t={:.1}ms {}", now as f64 / 1e6, s));
        }};
    }
    for _ in 0..ops {
        if stopped {
            break;
        }
        uv::time::set_virtual_ns(Some(now));
        match rng.below(10) {
            0..=3 => {
                // send
                if hc.send_buffer_size() < 300_000 {
                    let mode = if rng.chance(ts_p) { Mode::TimeSensitive } else { *rng.pick(&[Mode::Unreliable, Mode::Persistent, Mode::Reliable]) };
                    let len = match rng.below(3) {
                        0 => rng.range(4, 60) as usize,
                        1 => rng.range(4, max_len.max(5) as u64) as usize,
                        _ => rng.range(4, 300.min(max_len.max(5)) as u64) as usize,
                    };
                    uid += 1;
                    let chan = rng.below(8) as u8;
                    let data = model.submit(chan, mode, len, uid, now, steps);
                    note!(format!("send({} B, chan {}, {})", len, chan, mode.name()));
                    call!(3, "send()", hc.send(data, chan, mode.to_uflow()));
                    c.inc("solo_sends");
                }
            }
            4..=6 => {
                // time passes (possibly not at all, possibly less than a millisecond), then step()
                let dt = *rng.pick(&[0u64, 300_000, 900_000, MS, MS, 5 * MS, 33 * MS]);
                if dt < MS {
                    c.inc("solo_steps_less_than_1ms_apart");
                }
                now += dt;
                uv::time::set_virtual_ns(Some(now));
                note!(format!("step() after {:.1} ms", dt as f64 / 1e6));
                call!(1, "step()", hc.step());
                steps += 1;
                model.on_sender_step();
                c.inc("solo_steps");
            }
            7..=8 => {
                let mut frames: Vec<Vec<u8>> = Vec::new();
                {
                    let mut sink = VecSink { frames: &mut frames };
                    call!(2, "flush()", hc.flush(&mut sink));
                }
                note!(format!("flush() -> {} frames", frames.len()));
                c.inc("solo_flushes");
                for f in frames.iter() {
                    match decode(f) {
                        Some(fr) => {
                            model.on_wire(f, &fr);
                            if let RFrame::Data { sequence_id, nonce, ref datagrams } = fr {
                                for d in datagrams {
                                    if d.sequence_id == rx_complete_next && d.fragment_id == d.fragment_id_last {
                                        // (single pass, in order: good enough for an honest window report)
                                        rx_complete_next = pid_add(rx_complete_next, 1);
                                    } else if d.fragment_id == d.fragment_id_last && pid_sub(d.sequence_id, rx_complete_next) < window {
                                        rx_complete_next = pid_add(d.sequence_id, 1);
                                    }
                                }
                                due.push_back((now + rtt_ns, sequence_id, nonce, Some(rx_complete_next)));
                            }
                        }
                        None => viol.push(Violation::new("C16", "emitted-frame-rejected-by-reference", "C16:emitted-frame-rejected-by-reference", format!("the sender emitted {} bytes the reference decoder rejects", f.len()))),
                    }
                }
                if !stopped {
                    model.note_pulled(hc.verif_tx_packet_ids().1);
                }
            }
            _ => {
                // the peer's acknowledgements that are due
                let mut groups: Vec<RAckGroup> = Vec::new();
                let mut fbase = None;
                let mut pbase = None;
                while due.front().map_or(false, |d| d.0 <= now) && groups.len() < 100 {
                    let (_, seq, nonce, pb) = due.pop_front().unwrap();
                    groups.push(RAckGroup { base_id: seq, bitfield: 1, nonce });
                    fbase = Some(seq.wrapping_add(1));
                    pbase = pb.or(pbase);
                }
                if let Some(fb) = fbase {
                    let fr = RFrame::Acks { frame_window_base_id: fb, packet_window_base_id: pbase.unwrap_or(hc.verif_tx_packet_ids().0), groups };
                    let bytes = encode(&fr);
                    if let Some(Some(uv::frame::Frame::AckFrame(af))) = call!(9, "Frame::read", uv::frame::Frame::read(&bytes)) {
                        {
                            let has = |id: u32| hc.verif_has_frame(id);
                            model.on_ack_to_sender(&fr, &has);
                        }
                        note!("handle_ack_frame(honest acks)".to_string());
                        call!(5, "handle_ack_frame", hc.handle_ack_frame(af));
                        c.inc("solo_acks_handed_over");
                    }
                }
            }
        }
        if stopped {
            break;
        }
        let (sbs, pending) = (hc.send_buffer_size(), hc.is_send_pending());
        model.check_sender_observables(sbs, pending, trace.back().map(|s| s.as_str()).unwrap_or("start"));
        // (the open C12 finding does not end a session; anything else does, its trace is the witness)
        if model.violations.iter().any(|v| v.sig != "C12:ts-first-fragment-deferred-after-dequeue") {
            break;
        }
    }
    let _ = std::panic::catch_unwind(std::panic::AssertUnwindSafe(|| guarded(11, || drop(hc))));
    alloc::set_tag(alloc::TAG_HARNESS);
    let _ = alloc::take_violations();
    uv::time::set_virtual_ns(None);
    uv::rng::set_seed(None);
    out.evals += 1;
    for mut v in std::mem::take(&mut model.violations) {
        v.msg = format!("{} | last calls: {}", v.msg, trace.iter().cloned().collect::<Vec<_>>().join(" ; "));
        viol.push(v);
    }
    model.summary_counts();
    if c.get("solo_steps_less_than_1ms_apart") >= 5 && model.c.get("sub_ts") >= 3 && c.get("solo_acks_handed_over") >= 3 {
        out.nontrivial += 1;
        out.sigs.push(mix(seed, c.get("solo_sends") as u64 ^ (c.get("solo_steps") as u64) << 20));
    }
    for (k, v) in c.items.into_iter().chain(std::mem::take(&mut model.c.items).into_iter()) {
        if k.starts_with("max_") {
            out.counters.max(&k, v);
        } else {
            out.counters.add(&k, v);
        }
    }
    out.violations.extend(viol);
}

pub fn run_batch(scn_seed: u64, params: &crate::Params, out: &mut ScnOut) {
    let n = params.u64("batch", 10);
    let ops = params.u64("ops", 400) as usize;
    let verbose = params.flag("verbose");
    if let Some(one) = params.get("one") {
        run_session(one.parse().unwrap(), ops, out, verbose);
        return;
    }
    for k in 0..n {
        run_session(mix(scn_seed, k), ops, out, verbose);
        if out.violations.len() > 10 {
            break;
        }
    }
}
