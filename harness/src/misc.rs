// Small special-purpose workloads.

use crate::hcsim::{hc_config, SideCfg, MS};
use crate::util::*;
use crate::{alloc, guarded, ScnOut};
use uflow::verif as uv;

struct NullFrames(Vec<Vec<u8>>);
impl uv::FrameSink for NullFrames {
    fn send(&mut self, f: &[u8]) {
        alloc::in_harness(|| self.0.push(f.to_vec()));
    }
}
struct NullPackets(usize);
impl uv::PacketSink for NullPackets {
    fn send(&mut self, p: Box<[u8]>) {
        self.0 += p.len();
    }
}

/// `unsafe impl Send / Sync for HalfConnection`: hand a connection to another thread between
/// steps while two threads call its `&self` getters concurrently. Meant for Miri (data-race and
/// aliasing detector); natively it only exercises the code.
pub fn run_sendsync(seed: u64, out: &mut ScnOut) {
    let mut rng = Rng::new(seed);
    uv::time::set_virtual_ns(Some(0));
    uv::rng::set_seed(Some(seed));
    let a = SideCfg { nonce: rng.u32(), max_send_rate: 1_000_000, max_receive_rate: 1_000_000, rx_alloc: 100_000, keepalive: Some(5000) };
    let b = SideCfg { nonce: rng.u32(), max_send_rate: 1_000_000, max_receive_rate: 1_000_000, rx_alloc: 100_000, keepalive: Some(5000) };
    let mut tx = guarded(11, || uv::HalfConnection::new(hc_config(&a, &b, 64)));
    let mut rx = guarded(11, || uv::HalfConnection::new(hc_config(&b, &a, 64)));
    let mut delivered = 0usize;
    for round in 0..6u64 {
        let len = [10usize, 1500, 3000, 1449, 0, 2897][round as usize % 6];
        tx.send(vec![round as u8; len].into_boxed_slice(), (round % 64) as u8, uflow::SendMode::Reliable);
        // the sender lives on another thread for this round (Send) ...
        let t = round * 20 * MS;
        let (tx_back, frames) = std::thread::spawn(move || {
            uv::time::set_virtual_ns(Some(t));
            let mut sink = NullFrames(Vec::new());
            tx.flush(&mut sink);
            tx.step();
            tx.flush(&mut sink);
            (tx, sink.0)
        })
        .join()
        .unwrap();
        tx = tx_back;
        // ... while two threads read it through shared references (Sync)
        {
            let r = &tx;
            std::thread::scope(|s| {
                let h1 = s.spawn(move || (r.send_buffer_size(), r.is_send_pending(), r.rtt_s()));
                let h2 = s.spawn(move || (r.send_buffer_size(), r.is_send_pending(), r.rtt_s()));
                let x = h1.join().unwrap();
                let y = h2.join().unwrap();
                assert_eq!(x.0, y.0);
            });
        }
        uv::time::set_virtual_ns(Some(t + 5 * MS));
        let mut back = NullFrames(Vec::new());
        for f in frames {
            if let Some(fr) = <uv::frame::Frame as uv::Serialize>::read(&f) {
                match fr {
                    uv::frame::Frame::DataFrame(d) => rx.handle_data_frame(d),
                    uv::frame::Frame::SyncFrame(s) => rx.handle_sync_frame(s),
                    uv::frame::Frame::AckFrame(a) => rx.handle_ack_frame(a),
                    _ => {}
                }
            }
        }
        rx.step();
        let mut ps = NullPackets(0);
        rx.receive(&mut ps);
        delivered += ps.0;
        rx.flush(&mut back);
        for f in back.0 {
            if let Some(uv::frame::Frame::AckFrame(a)) = <uv::frame::Frame as uv::Serialize>::read(&f) {
                tx.handle_ack_frame(a);
            }
        }
        out.counters.inc("sendsync_rounds");
    }
    drop(tx);
    drop(rx);
    uv::time::set_virtual_ns(None);
    uv::rng::set_seed(None);
    out.counters.add("sendsync_bytes_delivered", delivered as i128);
    out.evals += 1;
    out.nontrivial += 1;
    out.sigs.push(mix(seed, delivered as u64));
    out.samples.push(J::obj().with("kind", J::s("HalfConnection moved across threads between steps, read concurrently through &self")).with("bytes_delivered", J::u(delivered)));
}
