// epsim: real Client / Server objects over the virtual network and virtual clock (DESIGN.md 4.2).
//
// The harness is the network: after every endpoint call it drains the wire, decodes each datagram
// for the trace, applies the fault model and schedules delivery. It can inject datagrams with any
// source address (off-path spoofing, raw hostile peers) and counts bytes per address.

use crate::payload;
use crate::util::*;
use crate::wire::*;
use crate::{alloc, guarded};
use std::cmp::Reverse;
use std::collections::{BinaryHeap, HashMap};
use std::net::SocketAddr;
use uflow::verif as uv;

pub const MS: u64 = 1_000_000;
pub const SEC: u64 = 1_000_000_000;

#[derive(Clone, Debug, PartialEq)]
pub enum Ev {
    Connect,
    Disconnect,
    Receive(u64, usize), // payload hash, length
    Error(&'static str), // "timeout" | "version" | "config" | "serverfull"
    // application actions (recorded in the same stream for the oracles)
    AppDisconnect,
    AppDisconnectNow,
    AppDrop,
    AppSend(u64, usize, u8), // uid, len, mode (0 TS 1 U 2 P 3 R)
}

#[derive(Clone, Debug)]
pub struct EvRec {
    pub t_ns: u64,
    pub step_no: u64,
    pub ev: Ev,
    pub uid: Option<u64>,
}

#[derive(Clone, Debug)]
pub struct WireRec {
    pub t_ns: u64,
    pub src: SocketAddr,
    pub dst: SocketAddr,
    pub len: usize,
    pub frame: Option<RFrame>,
    pub dropped: bool,
    pub injected: bool,
    /// the operating system refused the send (injected socket error): the endpoint made the
    /// attempt and was told that it failed; nothing was transmitted. Recorded as a dropped frame;
    /// byte accounting (C13, C18) and resend spacing / count clauses leave these out.
    pub refused: bool,
}

#[derive(Clone, Debug)]
pub struct DeliveredRec {
    pub t_ns: u64,
    pub src: SocketAddr,
    pub dst: SocketAddr,
    pub frame: Option<RFrame>,
    pub len: usize,
    pub injected: bool,
    /// when the destination endpoint took it out of its socket (observed: the socket's queue is
    /// first-in first-out and its length is read after every step); None = still queued, or the
    /// socket was closed first
    pub read_ns: Option<u64>,
}

struct Pending {
    t_ns: u64,
    seq: u64,
    src: SocketAddr,
    dst: SocketAddr,
    data: Vec<u8>,
    injected: bool,
}
impl PartialEq for Pending {
    fn eq(&self, o: &Self) -> bool {
        (self.t_ns, self.seq) == (o.t_ns, o.seq)
    }
}
impl Eq for Pending {}
impl PartialOrd for Pending {
    fn partial_cmp(&self, o: &Self) -> Option<std::cmp::Ordering> {
        Some(self.cmp(o))
    }
}
impl Ord for Pending {
    fn cmp(&self, o: &Self) -> std::cmp::Ordering {
        (self.t_ns, self.seq).cmp(&(o.t_ns, o.seq))
    }
}

#[derive(Clone, Debug)]
pub struct DropRule {
    pub from: Option<SocketAddr>,
    pub to: Option<SocketAddr>,
    pub frame_type: &'static str, // RFrame::type_name()
    pub remaining: u32,
}

#[derive(Clone, Debug)]
pub struct NetPhase {
    pub until_ns: u64,
    pub loss: f64,
    pub dup: f64,
    pub delay_p: f64,
    pub delay_max_ms: u64,
    pub blackout_to_server: bool,
    pub blackout_to_clients: bool,
}

pub struct NetCfg {
    pub latency_ms: u64,
    pub phases: Vec<NetPhase>,
    pub drop_rules: Vec<DropRule>,
    /// twin-run mode: phase faults apply to handshake frame types only, and a frame's fate is keyed
    /// by (source, destination, type, how many of that type were sent before) instead of its bytes,
    /// so that fates do not depend on nonce values
    pub handshake_faults_only: bool,
    /// handshake error frames (refusals) take this much longer than everything else (ns, range):
    /// a refusal that arrives after the client's SYN resend has been accepted
    pub error_delay_ns: Option<(u64, u64)>,
}

impl NetCfg {
    pub fn ideal(latency_ms: u64) -> Self {
        Self { latency_ms, phases: Vec::new(), drop_rules: Vec::new(), handshake_faults_only: false, error_delay_ns: None }
    }
    pub fn fair_from_ns(&self) -> u64 {
        self.phases.last().map_or(0, |p| p.until_ns)
    }
}

pub struct ClientSlot {
    pub client: Option<uflow::client::Client>,
    pub addr: SocketAddr,
    pub events: Vec<EvRec>,
    pub steps: u64,
    pub next_step_ns: u64,
    pub step_dt_ns: (u64, u64),
    pub max_step_gap_ns: u64,
    pub last_step_ns: u64,
    pub cfg: uflow::EndpointConfig,
    pub created_ns: u64,
    pub syn_nonce: Option<u32>,
    // C08 automaton: 0 idle, 1 up, 2 ended
    pub state: u8,
    pub dropped_ns: Option<u64>,
    pub cadence_rng: Rng,
    pub step_times: Vec<u64>,
}

pub struct ServerSide {
    pub server: Option<uflow::server::Server>,
    pub addr: SocketAddr,
    pub events: Vec<(SocketAddr, EvRec)>,
    pub steps: u64,
    pub next_step_ns: u64,
    pub step_dt_ns: (u64, u64),
    pub max_step_gap_ns: u64,
    pub last_step_ns: u64,
    pub max_total: usize,
    pub max_active: usize,
    pub cfg: uflow::EndpointConfig,
    // per address automaton state (0 idle, 1 up, 2 ended)
    pub conn_state: HashMap<SocketAddr, u8>,
    /// addresses whose connection the server itself has begun to close (its Disconnect is on the wire)
    pub closing: HashMap<SocketAddr, bool>,
    pub active_now: usize,
    pub max_active_seen: usize,
    pub max_tracked_seen: usize,
    pub cadence_rng: Rng,
    pub step_times: Vec<u64>,
}

/// Send errors of the operating system's socket: every `every`-th send of the chosen side(s) fails
/// (0 = none), and during each burst (side, from, until) every send of that side fails.
#[derive(Clone, Debug, Default)]
pub struct SendFaultPlan {
    /// the socket works again from here on
    pub until_ns: u64,
    pub every: u64,
    pub only_server: Option<bool>,
    pub bursts: Vec<(Option<bool>, u64, u64)>,
    /// receive side: every `recv_every`-th receive call of the chosen side(s) fails (0 = none) and
    /// during each burst every receive call of that side fails. A failing call consumes nothing:
    /// the endpoint's receive loop of that step ends and the queue waits for the next step.
    pub recv_every: u64,
    pub recv_bursts: Vec<(Option<bool>, u64, u64)>,
}

impl SendFaultPlan {
    pub fn random(rng: &mut Rng, horizon_ns: u64) -> Self {
        let every = *rng.pick(&[0u64, 0, 2, 3, 7, 20, 100]);
        let only_server = *rng.pick(&[None, None, Some(true), Some(false)]);
        let mut bursts = Vec::new();
        let n = if every == 0 { rng.range(1, 4) } else { rng.range(0, 2) };
        for _ in 0..n {
            let t0 = rng.range(0, horizon_ns.max(2));
            let len = *rng.pick(&[1u64, 5, 20, 100, 500, 2100, 5000]) * MS;
            bursts.push((*rng.pick(&[None, Some(true), Some(false)]), t0, (t0 + len).min(horizon_ns)));
        }
        Self { until_ns: horizon_ns, every, only_server, bursts, recv_every: 0, recv_bursts: Vec::new() }
    }

    /// Receive errors only (ECONNREFUSED on a connected socket after an ICMP error, EINTR, ...).
    pub fn random_recv(rng: &mut Rng, horizon_ns: u64) -> Self {
        let recv_every = *rng.pick(&[0u64, 0, 5, 17, 50]);
        let only_server = *rng.pick(&[None, None, Some(true), Some(false)]);
        let mut recv_bursts = Vec::new();
        let n = if recv_every == 0 { rng.range(1, 5) } else { rng.range(0, 3) };
        for _ in 0..n {
            let t0 = rng.range(0, horizon_ns.max(2));
            let len = *rng.pick(&[1u64, 5, 20, 100, 500, 1500]) * MS;
            recv_bursts.push((*rng.pick(&[None, Some(true), Some(false)]), t0, (t0 + len).min(horizon_ns)));
        }
        Self { until_ns: horizon_ns, every: 0, only_server, bursts: Vec::new(), recv_every, recv_bursts }
    }
}

pub struct World {
    pub now_ns: u64,
    /// added to the clock uflow sees after the server was bound ("the server has been up this long")
    pub epoch_ns: u64,
    pub send_faults: Option<SendFaultPlan>,
    send_fault_armed: (u64, u64),
    fault_phase_rng: Rng,
    /// per socket: indices into `delivered` of the datagrams still in its receive queue
    inbox_fifo: HashMap<SocketAddr, std::collections::VecDeque<usize>>,
    pub seq: u64,
    pub rng: Rng,
    pub net: NetCfg,
    pub server: ServerSide,
    pub clients: Vec<ClientSlot>,
    pending: BinaryHeap<Reverse<Pending>>,
    pub wire: Vec<WireRec>,
    pub delivered: Vec<DeliveredRec>,
    pub keep_trace: bool,
    /// bytes per client address: (received by the server from it, sent by the server to it)
    pub bytes: HashMap<SocketAddr, (u64, u64)>,
    pub handshake_done: HashMap<SocketAddr, bool>,
    syns_delivered: HashMap<SocketAddr, u64>,
    instances: HashMap<SocketAddr, u64>,
    reported_no_syn: bool,
    pub take_limit: Option<usize>,
    untracked_reported: bool,
    /// nonces the server has sent to each address in SYN-ACKs (from the wire)
    pub synack_nonces: HashMap<SocketAddr, Vec<u32>>,
    /// addresses that returned one of those nonces in a handshake ACK delivered to the server:
    /// the only proof of reachability there is, independent of what the server believes
    pub verified: HashMap<SocketAddr, bool>,
    /// addresses from which an ACK echoing a nonce the server sent them has been delivered
    pub ack_seen: HashMap<SocketAddr, bool>,
    /// addresses Server::client() knew after the previous server call / valid ACKs delivered since
    pub tracked_prev: Vec<SocketAddr>,
    pub valid_ack_since_call: Vec<SocketAddr>,
    pub wire_mark: usize,
    pub tracked_error_reported: bool,
    pub violations: Vec<Violation>,
    pub c: Counters,
    pub panicked: bool,
    pub verbose: bool,
    pub known_addrs: Vec<SocketAddr>,
    uid_counter: u64,
    occurrences: HashMap<u64, u32>,
    fate_seed: u64,
    /// per client address: state of the PEER's sender when the first timeout of the connection was reported
    pub death_diag: HashMap<SocketAddr, (bool, String)>,
}

fn mode_of(m: u8) -> uflow::SendMode {
    match m {
        0 => uflow::SendMode::TimeSensitive,
        1 => uflow::SendMode::Unreliable,
        2 => uflow::SendMode::Persistent,
        _ => uflow::SendMode::Reliable,
    }
}

pub fn client_addr(k: usize) -> SocketAddr {
    SocketAddr::from(([10, 0, (1 + k / 200) as u8, (1 + k % 200) as u8], 5000 + (k % 1000) as u16))
}

pub fn server_addr() -> SocketAddr {
    SocketAddr::from(([10, 0, 0, 1], 7000))
}

macro_rules! ep_call {
    ($self:ident, $label:expr, $what:expr, $body:expr) => {{
        let r = std::panic::catch_unwind(std::panic::AssertUnwindSafe(|| guarded($label, || $body)));
        alloc::set_tag(alloc::TAG_HARNESS);
        match r {
            Ok(v) => Some(v),
            Err(e) => {
                let m = crate::panic_message(&e);
                let site = crate::panic_site(&m);
                $self.violations.push(Violation::new("C03", "panic", &format!("panic:{}", site), format!("{} panicked at t={} ms: {}", $what, $self.now_ns / MS, m)));
                $self.panicked = true;
                None
            }
        }
    }};
}

/// One session in eight runs on a server that has been up for a long time: its millisecond clock
/// is about to pass 2^31, 2^32 or 2^40 (or just has), so anything that keeps fewer bits of a time
/// stamp than the library's u64 shows.
pub fn pick_epoch_ns(h: u64) -> u64 {
    if h % 8 != 0 {
        return 0;
    }
    let base_ms: u64 = [1u64 << 32, 1u64 << 32, 1u64 << 31, 1u64 << 40, (1u64 << 32) + (1u64 << 31), 3 * (1u64 << 32)][((h >> 8) % 6) as usize];
    // the boundary falls 0..40 s into the session, or was passed up to 5 s before it began
    let span = if (h >> 40) % 3 == 0 { 600_000 } else { 45_000 };
    let before_ms = ((h >> 16) % span) as i64 - 5_000;
    ((base_ms as i64 - before_ms) as u64) * MS
}

impl World {
    pub fn new(seed: u64, net: NetCfg, verbose: bool) -> Self {
        uv::time::set_virtual_ns(Some(0));
        uv::rng::set_seed(Some(mix(seed, 0xe9)));
        uv::rng::clear_forced();
        uv::net::enable();
        uv::net::set_socket_faults(0, 0);
        let _ = uv::net::drain_refused();
        Self {
            now_ns: 0,
            epoch_ns: pick_epoch_ns(mix(seed, 0xe90c)),
            send_faults: None,
            send_fault_armed: (0, 0),
            fault_phase_rng: Rng::new(mix(seed, 0xfa5e)),
            inbox_fifo: HashMap::new(),
            seq: 0,
            rng: Rng::new(mix(seed, 0x3e7)),
            net,
            server: ServerSide {
                server: None,
                addr: server_addr(),
                events: Vec::new(),
                steps: 0,
                next_step_ns: 0,
                step_dt_ns: (10 * MS, 10 * MS),
                max_step_gap_ns: 0,
                last_step_ns: 0,
                max_total: 0,
                max_active: 0,
                cfg: Default::default(),
                conn_state: HashMap::new(),
                closing: HashMap::new(),
                active_now: 0,
                max_active_seen: 0,
                max_tracked_seen: 0,
                cadence_rng: Rng::new(mix(seed, 0xcade)),
                step_times: Vec::new(),
            },
            clients: Vec::new(),
            pending: BinaryHeap::new(),
            wire: Vec::new(),
            delivered: Vec::new(),
            keep_trace: true,
            bytes: HashMap::new(),
            handshake_done: HashMap::new(),
            syns_delivered: HashMap::new(),
            instances: HashMap::new(),
            reported_no_syn: false,
            take_limit: None,
            untracked_reported: false,
            synack_nonces: HashMap::new(),
            verified: HashMap::new(),
            ack_seen: HashMap::new(),
            tracked_prev: Vec::new(),
            valid_ack_since_call: Vec::new(),
            wire_mark: 0,
            tracked_error_reported: false,
            violations: Vec::new(),
            c: Counters::default(),
            panicked: false,
            verbose,
            known_addrs: Vec::new(),
            uid_counter: 0,
            occurrences: HashMap::new(),
            fate_seed: mix(seed, 0xfa7e),
            death_diag: HashMap::new(),
        }
    }

    pub fn finish(&mut self) {
        // drop endpoints inside the uflow heap scope, then the network
        for c in self.clients.iter_mut() {
            let cl = c.client.take();
            let _ = std::panic::catch_unwind(std::panic::AssertUnwindSafe(|| guarded(11, || drop(cl))));
        }
        let s = self.server.server.take();
        let _ = std::panic::catch_unwind(std::panic::AssertUnwindSafe(|| guarded(11, || drop(s))));
        alloc::set_tag(alloc::TAG_HARNESS);
        if self.send_faults.is_some() {
            let (_, re) = uv::net::socket_fault_counts();
            self.c.add("receive_calls_failed_by_the_socket", re as i128);
            uv::net::set_socket_faults(0, 0);
        }
        let _ = uv::net::drain_refused();
        uv::net::disable();
        uv::time::set_virtual_ns(None);
        uv::rng::set_seed(None);
        uv::rng::clear_forced();
    }

    /// Stamps the datagrams the endpoint at `addr` has taken out of its socket during the call that
    /// just returned (what is left in the queue is read from the socket; the queue is FIFO).
    fn note_reads(&mut self, addr: SocketAddr) {
        let left = uv::net::inbox_len(addr);
        if let Some(q) = self.inbox_fifo.get_mut(&addr) {
            while q.len() > left {
                let idx = q.pop_front().unwrap();
                self.delivered[idx].read_ns = Some(self.now_ns);
            }
        }
    }

    /// Every call into an endpoint starts here: sets the clock uflow sees and, when the session has a
    /// send-fault plan, makes the (virtual) operating system refuse this endpoint's sends.
    fn enter(&mut self, is_server: bool) {
        uv::time::set_virtual_ns(Some(self.now_ns + self.epoch_ns));
        if let Some(ref plan) = self.send_faults {
            let t = self.now_ns;
            let burst = plan.bursts.iter().any(|b| b.1 <= t && t < b.2 && b.0.map_or(true, |s| s == is_server));
            let want: u64 = if t >= plan.until_ns { 0 } else if burst { 1 } else if plan.only_server.map_or(true, |s| s == is_server) { plan.every } else { 0 };
            let rburst = plan.recv_bursts.iter().any(|b| b.1 <= t && t < b.2 && b.0.map_or(true, |s| s == is_server));
            let rwant: u64 = if t >= plan.until_ns { 0 } else if rburst { 1 } else if plan.only_server.map_or(true, |s| s == is_server) { plan.recv_every } else { 0 };
            // (the hook's "every n-th call" counters are shared by all sockets of the thread: with fixed
            // step cadences the failing call can lock onto one endpoint for the whole session — a
            // socket that fails on EVERY call; the counters are restarted at random moments so that
            // the phase drifts)
            let rephase = (want > 1 || rwant > 1) && self.fault_phase_rng.chance(0.03);
            if (want, rwant) != self.send_fault_armed || rephase {
                let (_, re) = uv::net::socket_fault_counts();
                self.c.add("receive_calls_failed_by_the_socket", re as i128);
                self.send_fault_armed = (want, rwant);
                uv::net::set_socket_faults(want, rwant);
            }
        }
    }

    /// From now on the operating system refuses sends according to `plan` (ENOBUFS, EPERM,
    /// ECONNREFUSED on a send: the frame is not transmitted and the endpoint is told so). A refused
    /// send is recorded in the wire trace as a dropped frame with `refused` set.
    pub fn set_send_fault_plan(&mut self, plan: SendFaultPlan) {
        self.c.inc(if plan.recv_every != 0 || !plan.recv_bursts.is_empty() { "sessions_with_receive_errors" } else { "sessions_with_send_errors" });
        self.send_faults = Some(plan);
        self.send_fault_armed = (0, 0);
    }

    pub fn viol(&mut self, prop: &'static str, rule: &str, msg: String) {
        if self.violations.len() < 40 {
            self.violations.push(Violation::new(prop, rule, &format!("{}:{}", prop, rule), msg));
        }
    }

    fn log(&self, s: String) {
        if self.verbose {
            eprintln!("[{:>10.3} ms] {}", self.now_ns as f64 / 1e6, s);
        }
    }

    pub fn next_uid(&mut self) -> u64 {
        self.uid_counter += 1;
        self.uid_counter
    }

    // ---- endpoints -----------------------------------------------------------------------

    pub fn bind_server(&mut self, cfg: uflow::server::Config, step_dt_ns: (u64, u64)) -> bool {
        // the server object is created *before* the epoch offset applies: a server that has been
        // up for epoch_ns (its millisecond clock reads epoch + session time) when the session begins
        uv::time::set_virtual_ns(Some(self.now_ns));
        self.server.max_total = cfg.max_total_connections;
        self.server.max_active = cfg.max_active_connections;
        self.server.cfg = cfg.endpoint_config.clone();
        self.server.step_dt_ns = step_dt_ns;
        self.server.next_step_ns = self.now_ns;
        if self.epoch_ns != 0 {
            self.c.inc("servers_up_for_2^31_ms_or_more");
        }
        let addr = self.server.addr;
        match ep_call!(self, 10, "Server::bind", uflow::server::Server::bind(addr, cfg)) {
            Some(Ok(s)) => {
                self.server.server = Some(s);
                true
            }
            _ => false,
        }
    }

    pub fn connect_client(&mut self, cfg: uflow::EndpointConfig, addr: SocketAddr, step_dt_ns: (u64, u64), forced_nonce: Option<u32>) -> Option<usize> {
        self.enter(false);
        uv::net::push_bind_addr(addr);
        self.inbox_fifo.remove(&addr);
        if let Some(n) = forced_nonce {
            uv::rng::force_u32(n);
        }
        let dst = self.server.addr;
        let ccfg = uflow::client::Config { endpoint_config: cfg.clone() };
        let r = ep_call!(self, 10, "Client::connect", uflow::client::Client::connect(dst, ccfg));
        match r {
            Some(Ok(c)) => {
                let idx = self.clients.len();
                self.clients.push(ClientSlot {
                    client: Some(c),
                    addr,
                    events: Vec::new(),
                    steps: 0,
                    next_step_ns: self.now_ns,
                    step_dt_ns,
                    max_step_gap_ns: 0,
                    last_step_ns: self.now_ns,
                    cfg,
                    created_ns: self.now_ns,
                    syn_nonce: None,
                    state: 0,
                    dropped_ns: None,
                    cadence_rng: Rng::new(mix(self.fate_seed, idx as u64 ^ 0xc11e)),
                    step_times: Vec::new(),
                });
                self.log(format!("APP new client object {} at {}", idx, addr));
                if !self.known_addrs.contains(&addr) {
                    self.known_addrs.push(addr);
                }
                self.pump();
                Some(idx)
            }
            _ => None,
        }
    }

    pub fn drop_client(&mut self, i: usize) {
        self.enter(false);
        self.log(format!("APP drop client object {}", i));
        let cl = self.clients[i].client.take();
        if cl.is_some() {
            let _ = ep_call!(self, 11, "drop(Client)", drop(cl));
            let (t, st) = (self.now_ns, self.clients[i].steps);
            self.clients[i].events.push(EvRec { t_ns: t, step_no: st, ev: Ev::AppDrop, uid: None });
            self.clients[i].dropped_ns = Some(t);
        }
    }

    // ---- network -------------------------------------------------------------------------

    /// Collects everything the endpoints sent since the last call and decides its fate.
    pub fn pump(&mut self) {
        let mut dgrams: Vec<(uv::net::Datagram, bool)> = uv::net::drain_wire().into_iter().map(|d| (d, false)).collect();
        dgrams.extend(uv::net::drain_refused().into_iter().map(|d| (d, true)));
        for (d, refused) in dgrams {
            let frame = decode(&d.data);
            let to_server = d.dst == self.server.addr;
            if refused {
                self.c.inc("sends_refused_by_the_socket");
            }
            if !to_server && !refused {
                // server -> address accounting (C18), also counts replies to spoofed / raw sources
                let e = self.bytes.entry(d.dst).or_insert((0, 0));
                if d.src == self.server.addr {
                    e.1 += d.data.len() as u64;
                }
            }
            self.c.inc("datagrams_sent");
            if let Some(ref f) = frame {
                self.c.inc(match f {
                    RFrame::Syn { .. } => "wire_syn",
                    RFrame::SynAck { .. } => "wire_synack",
                    RFrame::Ack { .. } => "wire_ack",
                    RFrame::Error { .. } => "wire_error",
                    RFrame::Disconnect => "wire_disconnect",
                    RFrame::DisconnectAck => "wire_disconnectack",
                    RFrame::Data { .. } => "wire_data",
                    RFrame::Sync { .. } => "wire_sync",
                    RFrame::Acks { .. } => "wire_acks",
                });
                if matches!(f, RFrame::Disconnect) && d.src == self.server.addr {
                    // established -> closing (C17 counts established connections)
                    if self.server.conn_state.get(&d.dst) == Some(&1) && !self.server.closing.get(&d.dst).copied().unwrap_or(false) {
                        self.server.closing.insert(d.dst, true);
                        self.server.active_now -= 1;
                    }
                }
                if let RFrame::SynAck { nonce, .. } = f {
                    if d.src == self.server.addr {
                        let v = self.synack_nonces.entry(d.dst).or_default();
                        if !v.contains(nonce) {
                            v.push(*nonce);
                        }
                    }
                }
                if let RFrame::Syn { nonce, .. } = f {
                    if let Some(c) = self.clients.iter_mut().find(|c| c.addr == d.src && c.client.is_some()) {
                        c.syn_nonce = Some(*nonce);
                    }
                }
            }
            let t = self.now_ns;
            let mut dropped = refused;
            // targeted drops
            if let Some(ref f) = frame {
                let name = f.type_name();
                for r in self.net.drop_rules.iter_mut() {
                    if !refused && r.remaining > 0 && r.frame_type == name && r.from.map_or(true, |a| a == d.src) && r.to.map_or(true, |a| a == d.dst) {
                        r.remaining -= 1;
                        dropped = true;
                        break;
                    }
                }
            }
            let phase = self.net.phases.iter().find(|p| t < p.until_ns).cloned();
            let mut copies: Vec<u64> = Vec::new();
            // the fate of a datagram depends on its bytes and on how often those bytes were sent
            // before, not on other traffic (twin runs must give genuine frames identical fates)
            let is_handshake = matches!(frame, Some(RFrame::Syn { .. }) | Some(RFrame::SynAck { .. }) | Some(RFrame::Ack { .. }) | Some(RFrame::Error { .. }));
            let phase = if self.net.handshake_faults_only && !is_handshake { None } else { phase };
            let key = if self.net.handshake_faults_only {
                hash_str(&format!("{}>{}:{}", d.src, d.dst, frame.as_ref().map_or("?", |f| f.type_name())))
            } else {
                hash_bytes(hash_str(&format!("{}>{}", d.src, d.dst)), &d.data)
            };
            let occ = {
                let e = self.occurrences.entry(key).or_insert(0);
                *e += 1;
                *e
            };
            let mut frng = Rng::new(mix(self.fate_seed, mix(key, occ as u64)));
            if !dropped {
                match phase {
                    Some(p) => {
                        if (to_server && p.blackout_to_server) || (!to_server && p.blackout_to_clients) || frng.chance(p.loss) {
                            dropped = true;
                        } else {
                            let mut extra = 0;
                            if frng.chance(p.delay_p) {
                                extra = frng.range(0, p.delay_max_ms.max(1)) * MS;
                                self.c.inc("fate_delay");
                            }
                            copies.push(extra);
                            if frng.chance(p.dup) {
                                let n = 1 + frng.below(2);
                                for _ in 0..n {
                                    copies.push(frng.range(0, p.delay_max_ms.max(1)) * MS);
                                }
                                self.c.inc("fate_dup");
                            }
                        }
                    }
                    None => copies.push(0),
                }
            }
            if dropped && !refused {
                self.c.inc("fate_drop");
            }
            if self.verbose {
                self.log(format!("{} -> {} {} bytes {:?}{}", d.src, d.dst, d.data.len(), frame.as_ref().map(|f| brief(f)), if refused { "  [SEND REFUSED BY THE SOCKET]" } else if dropped { "  [DROPPED]" } else { "" }));
            }
            if self.keep_trace {
                self.wire.push(WireRec { t_ns: t, src: d.src, dst: d.dst, len: d.data.len(), frame: frame.clone(), dropped, injected: false, refused });
            }
            if let (Some((lo, hi)), Some(RFrame::Error { .. })) = (self.net.error_delay_ns, frame.as_ref()) {
                for c in copies.iter_mut() {
                    *c += frng.range(lo, hi);
                    self.c.inc("refusals_delayed_past_the_next_syn_resend");
                }
            }
            for extra in copies {
                self.seq += 1;
                self.pending.push(Reverse(Pending { t_ns: t + self.net.latency_ms * MS + extra, seq: self.seq, src: d.src, dst: d.dst, data: d.data.clone(), injected: false }));
            }
        }
    }

    /// Schedules a datagram the harness made up (spoofed source, raw hostile peer).
    pub fn inject(&mut self, src: SocketAddr, dst: SocketAddr, data: Vec<u8>, delay_ns: u64) {
        self.seq += 1;
        self.c.inc("datagrams_injected");
        if self.keep_trace {
            self.wire.push(WireRec { t_ns: self.now_ns, src, dst, len: data.len(), frame: decode(&data), dropped: false, injected: true, refused: false });
        }
        self.pending.push(Reverse(Pending { t_ns: self.now_ns + delay_ns, seq: self.seq, src, dst, data, injected: true }));
    }

    /// Moves every datagram that has arrived by now into the destination socket's queue.
    fn deliver_due(&mut self) {
        while let Some(Reverse(p)) = self.pending.peek() {
            if p.t_ns > self.now_ns {
                break;
            }
            let Reverse(p) = self.pending.pop().unwrap();
            let ok = uv::net::deliver(p.src, p.dst, &p.data);
            if ok {
                self.c.inc("datagrams_delivered");
                if p.dst == self.server.addr {
                    let e = self.bytes.entry(p.src).or_insert((0, 0));
                    e.0 += p.data.len() as u64;
                    // (the endpoint reads at most one MTU of a longer datagram)
                    if let Some(RFrame::Syn { .. }) = decode(&p.data[..p.data.len().min(MAX_FRAME_SIZE)]) {
                        *self.syns_delivered.entry(p.src).or_insert(0) += 1;
                    }
                    if let Some(RFrame::Ack { nonce_ack }) = decode(&p.data) {
                        // the address has shown that it receives what the server sends it; the
                        // handshake is complete once the server has accepted that ACK (see
                        // on_server_event): an address refused at that point stays unverified
                        if self.synack_nonces.get(&p.src).map_or(false, |v| v.contains(&nonce_ack)) {
                            self.ack_seen.insert(p.src, true);
                            if !self.valid_ack_since_call.contains(&p.src) {
                                self.valid_ack_since_call.push(p.src);
                            }
                        }
                    }
                }
                if self.keep_trace {
                    self.delivered.push(DeliveredRec { t_ns: self.now_ns, src: p.src, dst: p.dst, frame: decode(&p.data), len: p.data.len(), injected: p.injected, read_ns: None });
                    let idx = self.delivered.len() - 1;
                    self.inbox_fifo.entry(p.dst).or_default().push_back(idx);
                }
            } else {
                self.c.inc("datagrams_to_nowhere");
            }
        }
    }

    // ---- stepping ------------------------------------------------------------------------

    pub fn next_event_ns(&self) -> u64 {
        let mut t = u64::MAX;
        if self.server.server.is_some() {
            t = t.min(self.server.next_step_ns);
        }
        for c in &self.clients {
            if c.client.is_some() {
                t = t.min(c.next_step_ns);
            }
        }
        t
    }

    /// Steps whichever endpoint is due next; returns who (None = server, Some(i) = client i).
    pub fn step_next(&mut self) -> Option<Option<usize>> {
        let t = self.next_event_ns();
        if t == u64::MAX {
            return None;
        }
        self.now_ns = t.max(self.now_ns);
        if self.server.server.is_some() && self.server.next_step_ns <= t {
            self.step_server();
            Some(None)
        } else {
            let i = self.clients.iter().position(|c| c.client.is_some() && c.next_step_ns <= t).unwrap();
            self.step_client(i);
            Some(Some(i))
        }
    }

    pub fn step_server(&mut self) {
        self.enter(true);
        self.deliver_due();
        let now = self.now_ns;
        let evs: Option<Vec<uflow::server::Event>> = {
            let srv = self.server.server.as_mut().unwrap();
            // an application may stop reading the iterator early (the unread events count as
            // delivered by the documentation); `take_limit` is set by the partial-read family only
            match self.take_limit {
                Some(k) => ep_call!(self, 10, "Server::step", srv.step().take(k).collect()),
                None => ep_call!(self, 10, "Server::step", srv.step().collect()),
            }
        };
        self.pump();
        let sa = self.server.addr;
        self.note_reads(sa);
        let s = &mut self.server;
        if s.steps > 0 {
            s.max_step_gap_ns = s.max_step_gap_ns.max(now - s.last_step_ns);
        }
        s.last_step_ns = now;
        s.steps += 1;
        s.step_times.push(now);
        let dt = s.cadence_rng.range(s.step_dt_ns.0, s.step_dt_ns.1);
        s.next_step_ns = now + dt.max(1);
        let step_no = s.steps;
        if let Some(evs) = evs {
            for e in evs {
                let (addr, ev) = match e {
                    uflow::server::Event::Connect(a) => (a, Ev::Connect),
                    uflow::server::Event::Disconnect(a) => (a, Ev::Disconnect),
                    uflow::server::Event::Receive(a, d) => (a, Ev::Receive(hash_bytes(7, &d), d.len())),
                    uflow::server::Event::Error(a, t) => (
                        a,
                        Ev::Error(match t {
                            uflow::server::ErrorType::Timeout => "timeout",
                            uflow::server::ErrorType::Version => "version",
                            uflow::server::ErrorType::Config => "config",
                            uflow::server::ErrorType::ServerFull => "serverfull",
                        }),
                    ),
                };
                let uid = match (&ev, ()) {
                    _ => None,
                };
                self.on_server_event(addr, ev, uid, step_no);
            }
        }
        self.after_server_call();
    }

    fn on_server_event(&mut self, addr: SocketAddr, ev: Ev, uid: Option<u64>, step_no: u64) {
        if self.verbose {
            self.log(format!("server event {} {:?}", addr, ev));
        }
        // C18: the handshake of an address is complete when a valid ACK from it has been delivered
        // AND the server has accepted it (neither alone: a Connect without the ACK proves nothing
        // about the address, an ACK that the server refuses completes nothing)
        if ev == Ev::Connect && self.ack_seen.get(&addr).copied().unwrap_or(false) {
            self.verified.insert(addr, true);
        }
        // C08 automaton per address
        let st = *self.server.conn_state.get(&addr).unwrap_or(&0);
        if st == 1 && ev == Ev::Error("timeout") {
            self.note_timeout(addr, true);
        }
        // every connection instance (or refused / timed-out attempt) the server reports begins with
        // a SYN: after one has ended, the next Connect or handshake error for the address needs a
        // SYN delivered to the server since then. A refusal that is not final, or a pending entry
        // that outlives its terminal event, shows as a second instance without a new handshake.
        if st != 1 && matches!(ev, Ev::Connect | Ev::Error(_)) {
            let n = self.instances.entry(addr).or_insert(0);
            *n += 1;
            let n = *n;
            let syns = self.syns_delivered.get(&addr).copied().unwrap_or(0);
            if n > syns && !self.reported_no_syn {
                self.reported_no_syn = true;
                let t = self.now_ns / MS;
                self.viol("C08", "server-instance-without-new-handshake", format!("server reported {:?} for {} at t={} ms: that is connection / attempt #{} it reports for the address, but only {} SYNs from it have ever been delivered (every instance begins with one)", ev, addr, t, n, syns));
            }
        }
        let new = match (&ev, st) {
            (Ev::Connect, 0) | (Ev::Connect, 2) => 1,
            (Ev::Receive(..), 1) => 1,
            (Ev::Disconnect, 1) => 2,
            (Ev::Error(_), 1) => 2,
            (Ev::Error(_), 0) | (Ev::Error(_), 2) => 2, // failed handshake (enable_handshake_errors)
            _ => {
                let name = ["before any Connect", "while connected", "after the connection ended"][st as usize];
                self.viol("C08", &format!("server-event-{}", match ev { Ev::Connect => "connect", Ev::Disconnect => "disconnect", Ev::Receive(..) => "receive", _ => "error" }), format!("server reported {:?} for {} {} (t={} ms)", ev, addr, name, self.now_ns / MS));
                st
            }
        };
        if st != 1 && new == 1 {
            self.server.active_now += 1;
            self.server.closing.insert(addr, false);
            self.handshake_done.insert(addr, true);
        }
        if st == 1 && new != 1 && !self.server.closing.get(&addr).copied().unwrap_or(false) {
            self.server.active_now -= 1;
        }
        self.server.conn_state.insert(addr, new);
        self.server.max_active_seen = self.server.max_active_seen.max(self.server.active_now);
        self.c.inc(match ev {
            Ev::Connect => "srv_connect",
            Ev::Disconnect => "srv_disconnect",
            Ev::Receive(..) => "srv_receive",
            Ev::Error(_) => "srv_error",
            _ => "srv_other",
        });
        self.server.events.push((addr, EvRec { t_ns: self.now_ns, step_no, ev, uid }));
    }

    /// C17 / C18 checks that apply after every server call.
    fn after_server_call(&mut self) {
        if self.server.server.is_none() {
            return;
        }
        // C17: established connections
        if self.server.active_now > self.server.max_active {
            let (a, m) = (self.server.active_now, self.server.max_active);
            self.viol("C17", "too-many-active", format!("{} connections are between Connect and their terminal event, max_active_connections = {} (t={} ms)", a, m, self.now_ns / MS));
        }
        // C17: tracked connections via the public lookup
        let mut tracked = 0;
        let mut tracked_now: Vec<SocketAddr> = Vec::new();
        {
            let srv = self.server.server.as_ref().unwrap();
            for a in &self.known_addrs {
                if srv.client(a).is_some() {
                    tracked += 1;
                    tracked_now.push(*a);
                }
            }
        }
        // C07: a handshake frame never disturbs an address the server already tracks. The only
        // handshake error a tracked address is ever sent is the refusal of its own valid ACK at
        // activation; a SYN (repeated, stale or forged) from a pending or connected address is
        // ignored, whatever its version and limits and however full the server is.
        if self.keep_trace {
            let srv_addr = self.server.addr;
            let mut first: Option<String> = None;
            for r in self.wire[self.wire_mark.min(self.wire.len())..].iter() {
                if r.src != srv_addr || r.injected {
                    continue;
                }
                if let Some(RFrame::Error { error, .. }) = r.frame {
                    self.c.inc("c07_handshake_errors_sent");
                    // (an entry whose end the server reported in this very step — it read the peer's
                    // DisconnectAck, or a timer fired — may have been gone before the SYN was handled)
                    let ended_in_this_step = self.server.events.iter().rev().take_while(|(_, e)| e.t_ns == self.now_ns).any(|(a, e)| *a == r.dst && matches!(e.ev, Ev::Disconnect | Ev::Error(_)));
                    if self.tracked_prev.contains(&r.dst) && !self.valid_ack_since_call.contains(&r.dst) && !ended_in_this_step && first.is_none() {
                        let established = self.server.conn_state.get(&r.dst) == Some(&1);
                        first = Some(format!("the server sent a handshake error (reason {}) to {} at t={} ms although it was tracking that address ({}) and no ACK echoing its nonce had arrived since its previous call: a repeated, stale or forged SYN from a tracked address must be ignored", error, r.dst, r.t_ns / MS, if established { "established connection" } else { "handshake in progress or connection closing" }));
                    }
                }
            }
            self.wire_mark = self.wire.len();
            if let Some(m) = first {
                if !self.tracked_error_reported {
                    self.tracked_error_reported = true;
                    self.viol("C07", "handshake-error-sent-to-tracked-address", m);
                }
            }
        }
        self.tracked_prev = tracked_now;
        // (a socket whose receive calls fail hands an ACK over in a later call than the one it
        // arrived before: there the clause only asks for a valid ACK to have arrived at all)
        if !self.send_faults.as_ref().map_or(false, |p| p.recv_every != 0 || !p.recv_bursts.is_empty()) {
            self.valid_ack_since_call.clear();
        }
        // a connection the server has reported and not ended is one it still knows: stale timers
        // or leftovers of earlier handshakes from the same address must not take it away
        {
            let srv = self.server.server.as_ref().unwrap();
            let mut lost: Option<SocketAddr> = None;
            for (a, st) in self.server.conn_state.iter() {
                if *st == 1 && srv.client(a).is_none() && lost.map_or(true, |l| *a < l) {
                    lost = Some(*a);
                }
            }
            if let Some(a) = lost {
                if !self.untracked_reported {
                    self.untracked_reported = true;
                    let t = self.now_ns / MS;
                    self.viol("C07", "established-connection-untracked", format!("Server::client({}) is None at t={} ms although the server reported Connect for that address and no Disconnect / Error since: the established connection was removed from the server's table", a, t));
                }
            }
        }
        self.server.max_tracked_seen = self.server.max_tracked_seen.max(tracked);
        if tracked > self.server.max_total {
            let m = self.server.max_total;
            self.viol("C17", "too-many-tracked", format!("Server::client() is Some for {} addresses, max_total_connections = {} (t={} ms)", tracked, m, self.now_ns / MS));
        }
        // C18: unverified addresses must have received fewer bytes than they sent
        let mut worst: Option<(SocketAddr, u64, u64)> = None;
        for (a, (inb, outb)) in self.bytes.iter() {
            if *outb > 0 && *outb >= *inb && !self.verified.get(a).copied().unwrap_or(false) {
                if worst.map_or(true, |w| *a < w.0) {
                    worst = Some((*a, *inb, *outb));
                }
            }
        }
        if let Some((a, i, o)) = worst {
            self.viol("C18", "amplification", format!("server has sent {} bytes to {} which has not completed the handshake and from which it received {} bytes (t={} ms)", o, a, i, self.now_ns / MS));
        }
    }

    pub fn step_client(&mut self, i: usize) {
        self.enter(false);
        self.deliver_due();
        let now = self.now_ns;
        let evs: Option<Vec<uflow::client::Event>> = {
            let cl = self.clients[i].client.as_mut().unwrap();
            match self.take_limit {
                Some(k) => ep_call!(self, 10, "Client::step", cl.step().take(k).collect()),
                None => ep_call!(self, 10, "Client::step", cl.step().collect()),
            }
        };
        self.pump();
        let ca = self.clients[i].addr;
        self.note_reads(ca);
        let dt = {
            let (lo, hi) = self.clients[i].step_dt_ns;
            self.clients[i].cadence_rng.range(lo, hi)
        };
        let c = &mut self.clients[i];
        if c.steps > 0 {
            c.max_step_gap_ns = c.max_step_gap_ns.max(now - c.last_step_ns);
        }
        c.last_step_ns = now;
        c.steps += 1;
        c.step_times.push(now);
        c.next_step_ns = now + dt.max(1);
        let step_no = c.steps;
        if let Some(evs) = evs {
            for e in evs {
                let ev = match e {
                    uflow::client::Event::Connect => Ev::Connect,
                    uflow::client::Event::Disconnect => Ev::Disconnect,
                    uflow::client::Event::Receive(d) => Ev::Receive(hash_bytes(7, &d), d.len()),
                    uflow::client::Event::Error(t) => Ev::Error(match t {
                        uflow::client::ErrorType::Timeout => "timeout",
                        uflow::client::ErrorType::Version => "version",
                        uflow::client::ErrorType::Config => "config",
                        uflow::client::ErrorType::ServerFull => "serverfull",
                    }),
                };
                self.on_client_event(i, ev, step_no);
            }
        }
    }

    fn on_client_event(&mut self, i: usize, ev: Ev, step_no: u64) {
        if self.verbose {
            self.log(format!("client {} event {:?}", i, ev));
        }
        let st = self.clients[i].state;
        if st == 1 && ev == Ev::Error("timeout") {
            let a = self.clients[i].addr;
            self.note_timeout(a, false);
        }
        let new = match (&ev, st) {
            (Ev::Connect, 0) => 1,
            (Ev::Receive(..), 1) => 1,
            (Ev::Disconnect, 1) => 2,
            (Ev::Error(_), 1) => 2,
            (Ev::Error(_), 0) => 2,
            _ => {
                let name = ["before Connect", "while connected", "after the terminal event"][st as usize];
                self.viol("C08", &format!("client-event-{}", match ev { Ev::Connect => "connect", Ev::Disconnect => "disconnect", Ev::Receive(..) => "receive", _ => "error" }), format!("client {} reported {:?} {} (t={} ms)", i, ev, name, self.now_ns / MS));
                st
            }
        };
        self.clients[i].state = new;
        self.c.inc(match ev {
            Ev::Connect => "cli_connect",
            Ev::Disconnect => "cli_disconnect",
            Ev::Receive(..) => "cli_receive",
            Ev::Error(_) => "cli_error",
            _ => "cli_other",
        });
        let t = self.now_ns;
        self.clients[i].events.push(EvRec { t_ns: t, step_no, ev, uid: None });
    }

    pub fn hc_starved(hc: &uv::HalfConnection) -> (bool, String) {
        let rate = hc.verif_send_rate();
        let credit = hc.verif_flush_alloc();
        // at this rate the sender needs longer than 10 s to earn the credit for its next frame
        // ... or its rate is so low that RTO (= 2s/X, the minimum spacing of sync frames) exceeds 32 s
        let starved = (credit < 0 && (-(credit as f64)) / rate.max(1.0) > 10.0) || rate <= 92.0;
        // ... or its RTO (max(4 RTT, 2s/X): the spacing of its retransmissions and sync frames) has
        // grown to the 20 s after which the other end gives up
        let slow_rto = hc.verif_rto_ms().map_or(false, |r| r >= 20_000);
        (starved, format!("peer sender: rate {} B/s, credit {} bytes, rto {:?} ms, rtt {:?}{}", rate, credit, hc.verif_rto_ms(), hc.rtt_s(), if slow_rto { " [rto>=20s]" } else { "" }))
    }

    /// Snapshot of the other end's sender at the moment a timeout is reported for `addr`.
    fn note_timeout(&mut self, addr: SocketAddr, reported_by_server: bool) {
        if self.death_diag.contains_key(&addr) {
            return;
        }
        let d = if reported_by_server {
            self.clients.iter().rev().find(|c| c.addr == addr && c.client.is_some()).and_then(|c| c.client.as_ref().unwrap().verif_half_connection().map(Self::hc_starved))
        } else {
            self.server.server.as_ref().and_then(|s| s.client(&addr)).and_then(|rc| rc.borrow().verif_half_connection().map(Self::hc_starved))
        };
        self.death_diag.insert(addr, d.unwrap_or((false, "peer sender state not available (peer not active)".into())));
    }

    // ---- application actions -------------------------------------------------------------

    pub fn client_send(&mut self, i: usize, len: usize, chan: usize, mode: u8) -> Option<u64> {
        self.enter(false);
        let uid = self.next_uid();
        // len 0: a zero-length packet (all of them look alike: judged by count); otherwise >= 12 bytes carry a uid
        let data = payload::make(uid, if len == 0 { 0 } else { len.max(12) });
        let h = hash_bytes(7, &data);
        let l = data.len();
        let cl = self.clients[i].client.as_mut()?;
        let r = ep_call!(self, 3, "Client::send", cl.send(data, chan, mode_of(mode)));
        r?;
        let (t, st) = (self.now_ns, self.clients[i].steps);
        self.clients[i].events.push(EvRec { t_ns: t, step_no: st, ev: Ev::AppSend(h, l, mode), uid: Some(uid) });
        Some(uid)
    }

    pub fn server_send(&mut self, addr: SocketAddr, len: usize, chan: usize, mode: u8) -> Option<u64> {
        self.enter(true);
        let uid = self.next_uid();
        // len 0: a zero-length packet (all of them look alike: judged by count); otherwise >= 12 bytes carry a uid
        let data = payload::make(uid, if len == 0 { 0 } else { len.max(12) });
        let h = hash_bytes(7, &data);
        let l = data.len();
        let srv = self.server.server.as_ref()?;
        let rc = srv.client(&addr)?.clone();
        let active = rc.borrow().is_active();
        let r = ep_call!(self, 3, "RemoteClient::send", rc.borrow_mut().send(data, chan, mode_of(mode)));
        r?;
        if active {
            let (t, st) = (self.now_ns, self.server.steps);
            self.server.events.push((addr, EvRec { t_ns: t, step_no: st, ev: Ev::AppSend(h, l, mode), uid: Some(uid) }));
        }
        Some(uid)
    }

    pub fn client_disconnect(&mut self, i: usize, now: bool) {
        self.enter(false);
        self.log(format!("APP client {} disconnect(now={})", i, now));
        if let Some(cl) = self.clients[i].client.as_mut() {
            let _ = ep_call!(self, 11, "Client::disconnect", if now { cl.disconnect_now() } else { cl.disconnect() });
            let (t, st) = (self.now_ns, self.clients[i].steps);
            self.clients[i].events.push(EvRec { t_ns: t, step_no: st, ev: if now { Ev::AppDisconnectNow } else { Ev::AppDisconnect }, uid: None });
        }
    }

    pub fn server_disconnect(&mut self, addr: SocketAddr, now: bool) {
        self.enter(true);
        self.log(format!("APP server disconnect {} (now={})", addr, now));
        let rc = match self.server.server.as_ref().and_then(|s| s.client(&addr)) {
            Some(rc) => rc.clone(),
            None => return,
        };
        let _ = ep_call!(self, 11, "RemoteClient::disconnect", if now { rc.borrow_mut().disconnect_now() } else { rc.borrow_mut().disconnect() });
        let (t, st) = (self.now_ns, self.server.steps);
        self.server.events.push((addr, EvRec { t_ns: t, step_no: st, ev: if now { Ev::AppDisconnectNow } else { Ev::AppDisconnect }, uid: None }));
    }

    pub fn server_drop(&mut self, addr: SocketAddr) {
        self.enter(true);
        self.log(format!("APP server drop {}", addr));
        let existed = self.server.server.as_ref().map_or(false, |s| s.client(&addr).is_some());
        if let Some(srv) = self.server.server.as_mut() {
            let _ = ep_call!(self, 11, "Server::drop", srv.drop(&addr));
        }
        // the server no longer tracks the address: a SYN it sends from now on is a stranger's
        self.tracked_prev.retain(|a| *a != addr);
        if existed {
            // the application ended the connection: counts as the end of this instance (C08)
            let st = *self.server.conn_state.get(&addr).unwrap_or(&0);
            if st == 1 && !self.server.closing.get(&addr).copied().unwrap_or(false) {
                self.server.active_now -= 1;
            }
            self.server.conn_state.insert(addr, 2);
            let (t, stp) = (self.now_ns, self.server.steps);
            self.server.events.push((addr, EvRec { t_ns: t, step_no: stp, ev: Ev::AppDrop, uid: None }));
        }
    }

    pub fn server_flush(&mut self) {
        self.enter(true);
        if let Some(srv) = self.server.server.as_mut() {
            let _ = ep_call!(self, 2, "Server::flush", srv.flush());
        }
        self.pump();
        self.after_server_call();
    }

    pub fn client_flush(&mut self, i: usize) {
        self.enter(false);
        if let Some(cl) = self.clients[i].client.as_mut() {
            let _ = ep_call!(self, 2, "Client::flush", cl.flush());
        }
        self.pump();
    }

    pub fn server_events_for(&self, addr: SocketAddr) -> Vec<&EvRec> {
        self.server.events.iter().filter(|(a, _)| *a == addr).map(|(_, e)| e).collect()
    }
}

pub fn brief(f: &RFrame) -> String {
    match f {
        RFrame::Data { sequence_id, datagrams, .. } => format!("data#{}[{}]", sequence_id, datagrams.len()),
        RFrame::Acks { frame_window_base_id, packet_window_base_id, groups } => format!("acks fb={} pb={} g={}", frame_window_base_id, packet_window_base_id, groups.len()),
        other => format!("{:?}", other),
    }
}
