// hcsim: two real HalfConnections over a faulty link on the virtual clock (DESIGN.md 4.1).

use crate::model::*;
use crate::util::*;
use crate::wire::*;
use crate::{alloc, guarded};
use std::cmp::Reverse;
use std::collections::BinaryHeap;
use uflow::verif as uv;
use uflow::verif::Serialize;

pub const MS: u64 = 1_000_000;
pub const SEC: u64 = 1_000_000_000;
pub const MIN_RATE: f64 = 23.0;

#[derive(Clone, Debug)]
pub struct SideCfg {
    pub nonce: u32,
    pub max_send_rate: u32,
    pub max_receive_rate: u32,
    pub rx_alloc: usize,
    pub keepalive: Option<u64>,
}

#[derive(Clone, Debug)]
pub struct LinkPhase {
    pub until_ns: u64,
    pub loss: f64,
    pub dup: f64,
    pub reorder: f64,
    pub reorder_max_ms: u64,
    pub corrupt: f64,
    pub blackout: bool,
    /// which frame types the loss applies to: bit0 data, bit1 ack, bit2 sync
    pub loss_mask: u8,
    pub latency_ms: Option<u64>,
}

impl LinkPhase {
    pub fn clean(until_ns: u64) -> Self {
        Self { until_ns, loss: 0.0, dup: 0.0, reorder: 0.0, reorder_max_ms: 0, corrupt: 0.0, blackout: false, loss_mask: 7, latency_ms: None }
    }
}

#[derive(Clone, Debug)]
pub struct Link {
    pub latency_ms: u64,
    pub phases: Vec<LinkPhase>,
}

impl Link {
    pub fn fair_from_ns(&self) -> u64 {
        self.phases.last().map_or(0, |p| p.until_ns)
    }
    pub fn describe(&self) -> J {
        J::obj().with("latency_ms", J::Int(self.latency_ms as i128)).with(
            "phases",
            J::Arr(
                self.phases
                    .iter()
                    .map(|p| {
                        J::obj()
                            .with("until_ms", J::Int((p.until_ns / MS) as i128))
                            .with("loss", J::Num(p.loss))
                            .with("dup", J::Num(p.dup))
                            .with("reorder", J::Num(p.reorder))
                            .with("corrupt", J::Num(p.corrupt))
                            .with("blackout", J::Bool(p.blackout))
                            .with("loss_mask", J::Int(p.loss_mask as i128))
                            .with("latency_ms", p.latency_ms.map_or(J::Null, |l| J::Int(l as i128)))
                    })
                    .collect(),
            ),
        )
    }
}

#[derive(Clone, Debug)]
pub enum Cadence {
    Fixed(u64),       // ns
    Jitter(u64, u64), // ns
}

#[derive(Clone, Copy, Debug, PartialEq)]
pub enum LenClass {
    Tiny,
    /// 4 or 5 bytes: with its header a datagram of 9..10 bytes, so that a full data frame carries
    /// more datagrams than its count field can express unless the emitter stops in time
    Minute,
    Small,
    Medium,
    Boundary,
    Large,
    Mixed,
}

#[derive(Clone, Debug)]
pub struct Traffic {
    pub total: usize,
    pub per_step_p: f64,
    pub burst: (u64, u64),
    pub channels: Vec<u8>,
    pub mode_w: [u32; 4], // TS, U, P, R
    pub len_class: LenClass,
    pub max_len: usize,
    pub start_ns: u64,
    pub stop_ns: u64,
    pub amb_p: f64,
    pub amb_reliable: bool,
    pub extra_flushes: u64,
    pub probes_after_ns: Option<u64>,
    /// exact packets to submit at the first application turn (chan, mode, len)
    pub script: Vec<(u8, Mode, usize)>,
    /// 0 = independent draws; 1 = "reliable runs": one Reliable packet followed by a run of
    /// non-Reliable packets whose length is drawn from boundary values of the parent-lead fields
    /// (126..129, 254..257, ...); 2 = "uniform fragments": every packet has the same fragment count
    pub pattern: u8,
    /// the application submits nothing during these (from, until) spans, seconds long, so that
    /// keepalive / resynchronisation paths run in the middle of a connection's life
    pub idle: Vec<(u64, u64)>,
}

#[derive(Clone, Debug)]
pub struct Pause {
    pub from_ns: u64,
    pub until_ns: u64,
}

#[derive(Clone, Debug)]
pub struct Scenario {
    pub seed: u64,
    pub window: u32,
    pub cfg: [SideCfg; 2],
    pub link: [Link; 2], // link[0]: A->B, link[1]: B->A
    pub cadence: [Cadence; 2],
    pub pauses: [Vec<Pause>; 2],
    pub traffic: [Traffic; 2],
    pub horizon_ns: u64,
    pub ideal: bool,
    pub max_steps: u64,
    pub pinned_window_s: u64,
}

impl Scenario {
    pub fn fair_from_ns(&self) -> u64 {
        let mut t = self.link[0].fair_from_ns().max(self.link[1].fair_from_ns());
        for ps in &self.pauses {
            for p in ps {
                t = t.max(p.until_ns);
            }
        }
        t
    }

    pub fn describe(&self) -> J {
        let side = |i: usize| {
            J::obj()
                .with("nonce", J::Int(self.cfg[i].nonce as i128))
                .with("max_send_rate", J::Int(self.cfg[i].max_send_rate as i128))
                .with("max_receive_rate", J::Int(self.cfg[i].max_receive_rate as i128))
                .with("rx_alloc", J::u(self.cfg[i].rx_alloc))
                .with("cadence", J::s(&format!("{:?}", self.cadence[i])))
                .with("packets", J::u(self.traffic[i].total))
                .with("len_class", J::s(&format!("{:?}", self.traffic[i].len_class)))
                .with("max_len", J::u(self.traffic[i].max_len))
                .with("mode_weights_ts_u_p_r", J::Arr(self.traffic[i].mode_w.iter().map(|&w| J::Int(w as i128)).collect()))
                .with("channels", J::u(self.traffic[i].channels.len()))
                .with("extra_flushes", J::Int(self.traffic[i].extra_flushes as i128))
                .with("pauses", J::u(self.pauses[i].len()))
        };
        J::obj()
            .with("window", J::Int(self.window as i128))
            .with("ideal", J::Bool(self.ideal))
            .with("A", side(0))
            .with("B", side(1))
            .with("link_A_to_B", self.link[0].describe())
            .with("link_B_to_A", self.link[1].describe())
    }
}

#[derive(Clone, Copy, PartialEq, Debug)]
pub enum TwinMode {
    None,
    /// C15: inject forged / replayed ack frames at side 0's input
    AckInject,
    /// C04: append conflicting datagrams to genuine data frames on the (ideal) A->B link
    FragInject,
}

pub struct Outcome {
    pub violations: Vec<Violation>,
    pub c: Counters,
    pub quiescent: bool,
    pub stalled: bool,
    pub horizon_hit: bool,
    pub panicked: bool,
    pub delivered_hash: u64,
    pub obs: Vec<(u64, u64, &'static str)>,
    pub delivered_log: [Vec<u64>; 2],
    pub t_end_ns: u64,
    pub notes: Vec<String>,
    pub first_events: Vec<String>,
    /// (time handed to the sender, description) of injected frames (twin runs)
    pub inj_log: Vec<(u64, String)>,
}

struct VecSink<'a> {
    frames: &'a mut Vec<Vec<u8>>,
}
impl<'a> uv::FrameSink for VecSink<'a> {
    fn send(&mut self, frame_data: &[u8]) {
        alloc::in_harness(|| self.frames.push(frame_data.to_vec()));
    }
}

struct PktSink<'a> {
    pkts: &'a mut Vec<Box<[u8]>>,
}
impl<'a> uv::PacketSink for PktSink<'a> {
    fn send(&mut self, packet_data: Box<[u8]>) {
        alloc::in_harness(|| self.pkts.push(packet_data));
    }
}

struct InFlight {
    t_ns: u64,
    seq: u64,
    bytes: Vec<u8>,
    injected: bool,
}
impl PartialEq for InFlight {
    fn eq(&self, o: &Self) -> bool {
        self.t_ns == o.t_ns && self.seq == o.seq
    }
}
impl Eq for InFlight {}
impl PartialOrd for InFlight {
    fn partial_cmp(&self, o: &Self) -> Option<std::cmp::Ordering> {
        Some(self.cmp(o))
    }
}
impl Ord for InFlight {
    fn cmp(&self, o: &Self) -> std::cmp::Ordering {
        (self.t_ns, self.seq).cmp(&(o.t_ns, o.seq))
    }
}

pub struct TxEvent {
    pub t_ns: u64,
    pub len: u32,
    pub rtt_s: f64,
    pub step_dt_ns: u64,
    pub after_app_flush: bool,
}

struct Side {
    hc: Option<uv::HalfConnection>,
    rtt_ref_ms: Option<f64>,
    rtt_ref_reported: bool,
    inbox: BinaryHeap<Reverse<InFlight>>,
    next_step_ns: u64,
    last_step_ns: u64,
    steps: u64,
    sent_packets: usize,
    probes_sent: bool,
    tx_trace: Vec<TxEvent>,
    cur_rtt_s: f64,
    prev_rtt_s: f64,
    cur_step_dt_ns: u64,
    in_app_flush: bool,
    rate_limit: u32,
    quiet_steps: u32,
    captured_acks: Vec<Vec<u8>>,
    min_rate_seen: f64,
    max_rate_seen: f64,
}

pub fn hc_config(me: &SideCfg, peer: &SideCfg, window: u32) -> uv::HalfConnectionConfig {
    uv::HalfConnectionConfig {
        tx_frame_base_id: me.nonce,
        rx_frame_base_id: peer.nonce,
        tx_frame_window_size: window,
        rx_frame_window_size: window,
        tx_packet_base_id: me.nonce & PID_MASK,
        rx_packet_base_id: peer.nonce & PID_MASK,
        tx_packet_window_size: window,
        rx_packet_window_size: window,
        tx_bandwidth_limit: me.max_send_rate.min(peer.max_receive_rate),
        tx_alloc_limit: peer.rx_alloc,
        rx_alloc_limit: me.rx_alloc,
        keepalive_interval_ms: me.keepalive,
    }
}

fn frame_kind_bit(b: &[u8]) -> u8 {
    match b.first() {
        Some(10) => 1,
        Some(12) => 2,
        Some(11) => 4,
        _ => 0,
    }
}

pub struct Sim<'s> {
    scn: &'s Scenario,
    sides: [Side; 2],
    pub dirs: [DirModel; 2], // dirs[0]: A->B (sender side 0), dirs[1]: B->A
    link_rng: [Rng; 2],
    app_rng: [Rng; 2],
    inj_rng: Rng,
    seq: u64,
    now_ns: u64,
    /// added to the clock uflow sees once the HalfConnections exist: objects that are this old
    /// when the traffic begins (their millisecond counters near 2^31 / 2^32 / 2^40)
    epoch_ns: u64,
    uid_counter: [u64; 2],
    amb_counter: [u64; 2],
    pub out: Outcome,
    twin: TwinMode,
    inject: bool,
    last_progress: u64,
    last_progress_ns: u64,
    pinned_since_ns: [Option<u64>; 2],
    verbose: bool,
    heap_before: i64,
    run_left: [u32; 2],
}

macro_rules! uflow_call {
    ($self:ident, $label:expr, $what:expr, $body:expr) => {{
        let r = std::panic::catch_unwind(std::panic::AssertUnwindSafe(|| guarded($label, || $body)));
        alloc::set_tag(alloc::TAG_HARNESS);
        match r {
            Ok(v) => Some(v),
            Err(e) => {
                let m = crate::panic_message(&e);
                let site = crate::panic_site(&m);
                $self.out.violations.push(Violation::new("C03", "panic", &format!("panic:{}", site), format!("{} panicked at t={} ms: {}", $what, $self.now_ns / MS, m)));
                $self.out.panicked = true;
                None
            }
        }
    }};
}

impl<'s> Sim<'s> {
    pub fn new(scn: &'s Scenario, twin: TwinMode, inject: bool, verbose: bool) -> Self {
        uv::time::set_virtual_ns(Some(0));
        uv::rng::set_seed(Some(mix(scn.seed, 0x5eed)));
        let heap_before = alloc::live_bytes(alloc::TAG_UFLOW);
        let mk = |i: usize| -> Side {
            let cfg = hc_config(&scn.cfg[i], &scn.cfg[1 - i], scn.window);
            let limit = cfg.tx_bandwidth_limit;
            let hc = guarded(11, || uv::HalfConnection::new(cfg));
            Side {
                hc: Some(hc),
                rtt_ref_ms: None,
                rtt_ref_reported: false,
                inbox: BinaryHeap::new(),
                next_step_ns: 0,
                last_step_ns: 0,
                steps: 0,
                sent_packets: 0,
                probes_sent: false,
                tx_trace: Vec::new(),
                cur_rtt_s: 0.0,
                prev_rtt_s: 0.0,
                cur_step_dt_ns: 0,
                in_app_flush: false,
                rate_limit: limit,
                quiet_steps: 0,
                captured_acks: Vec::new(),
                min_rate_seen: f64::MAX,
                max_rate_seen: 0.0,
            }
        };
        let sides = [mk(0), mk(1)];
        let mut rng = Rng::new(mix(scn.seed, 0x11));
        let mut d0 = DirModel::new("A->B", scn.cfg[0].nonce, scn.window, scn.cfg[1].rx_alloc, scn.traffic[0].channels[0]);
        let mut d1 = DirModel::new("B->A", scn.cfg[1].nonce, scn.window, scn.cfg[0].rx_alloc, scn.traffic[1].channels[0]);
        d0.ideal = scn.ideal;
        d1.ideal = scn.ideal;
        Self {
            scn,
            sides,
            dirs: [d0, d1],
            link_rng: [rng.fork(), rng.fork()],
            app_rng: [rng.fork(), rng.fork()],
            inj_rng: Rng::new(mix(scn.seed, 0x1271ec7)),
            seq: 0,
            now_ns: 0,
            epoch_ns: crate::epsim::pick_epoch_ns(mix(scn.seed, 0xe90c)),
            uid_counter: [1, (1 << 30) | 1],
            amb_counter: [0, 0],
            out: Outcome {
                violations: Vec::new(),
                c: Counters::default(),
                quiescent: false,
                stalled: false,
                horizon_hit: false,
                panicked: false,
                delivered_hash: 0,
                obs: Vec::new(),
                delivered_log: [Vec::new(), Vec::new()],
                t_end_ns: 0,
                notes: Vec::new(),
                first_events: Vec::new(),
                inj_log: Vec::new(),
            },
            twin,
            inject,
            last_progress: 0,
            last_progress_ns: 0,
            pinned_since_ns: [None, None],
            verbose,
            heap_before,
            run_left: [0, 0],
        }
    }

    fn viol(&mut self, prop: &'static str, rule: &str, msg: String) {
        if self.out.violations.len() < 60 {
            self.out.violations.push(Violation::new(prop, rule, &format!("{}:{}", prop, rule), msg));
        }
    }

    fn ev(&mut self, s: String) {
        if self.verbose {
            eprintln!("[{:>9.3} ms] {}", self.now_ns as f64 / 1e6, s);
        }
        if self.out.first_events.len() < 12 {
            self.out.first_events.push(format!("t={}ms {}", self.now_ns / MS, s));
        }
    }

    // ---- link ----------------------------------------------------------------------------

    fn current_latency_ns(&self, from: usize) -> u64 {
        let link = &self.scn.link[from];
        let t = self.now_ns;
        let mut lat = link.latency_ms;
        for p in &link.phases {
            // overrides of the current and all earlier phases apply in order (last one wins)
            if let Some(l) = p.latency_ms {
                lat = l;
            }
            if t < p.until_ns {
                break;
            }
        }
        lat * MS
    }

    fn transmit(&mut self, from: usize, bytes: Vec<u8>) {
        let t = self.now_ns;
        let latency = self.current_latency_ns(from);
        let link = &self.scn.link[from];
        let phase = link.phases.iter().find(|p| t < p.until_ns);
        let rng = &mut self.link_rng[from];
        let kind = frame_kind_bit(&bytes);
        let to = 1 - from;
        let c = &mut self.out.c;
        c.inc("frames_sent");
        if let Some(p) = phase {
            if p.blackout {
                c.inc("fate_blackout_drop");
                return;
            }
            if p.loss_mask & kind != 0 && rng.chance(p.loss) {
                c.inc("fate_drop");
                return;
            }
            let mut copies = 1;
            if rng.chance(p.dup) {
                copies += 1 + rng.below(2) as usize;
                c.inc("fate_dup");
            }
            for k in 0..copies {
                let mut b = bytes.clone();
                let mut extra = 0;
                if k > 0 || rng.chance(p.reorder) {
                    extra = rng.range(0, p.reorder_max_ms.max(1)) * MS + rng.below(MS);
                    if k == 0 {
                        c.inc("fate_delay");
                    }
                }
                if rng.chance(p.corrupt) {
                    let nflips = rng.range(1, 4);
                    for _ in 0..nflips {
                        let bit = rng.below((b.len() * 8) as u64) as usize;
                        b[bit / 8] ^= 1 << (bit % 8);
                    }
                    c.inc("fate_corrupt");
                }
                self.seq += 1;
                self.sides[to].inbox.push(Reverse(InFlight { t_ns: t + latency + extra, seq: self.seq, bytes: b, injected: false }));
            }
        } else {
            self.seq += 1;
            self.sides[to].inbox.push(Reverse(InFlight { t_ns: t + latency, seq: self.seq, bytes, injected: false }));
            c.inc("fate_fair");
        }
    }

    // ---- emitted frames --------------------------------------------------------------------

    fn process_emitted(&mut self, from: usize, frames: Vec<Vec<u8>>) {
        for bytes in frames {
            match decode(&bytes) {
                Some(f) => {
                    self.dirs[from].clock_ms = (self.now_ns / MS) as u32;
                    self.dirs[from].stamp_ms = if self.sides[from].steps > 0 { (self.sides[from].last_step_ns / MS) as u32 } else { 0 };
                    self.dirs[from].on_wire(&bytes, &f);
                    if self.verbose {
                        let d = match &f {
                            RFrame::Data { sequence_id, datagrams, .. } => format!("data #{} [{}]", sequence_id, datagrams.iter().map(|d| format!("p{}f{}/{}c{}:{}B", d.sequence_id, d.fragment_id, d.fragment_id_last, d.channel_id, d.data.len())).collect::<Vec<_>>().join(" ")),
                            RFrame::Acks { frame_window_base_id, packet_window_base_id, groups } => format!("acks fb={} pb={} groups={:?}", frame_window_base_id, packet_window_base_id, groups.iter().map(|g| (g.base_id, g.bitfield)).collect::<Vec<_>>()),
                            other => format!("{:?}", other),
                        };
                        self.ev(format!("side {} emits {} bytes: {}", from, bytes.len(), d));
                    }
                }
                None => {
                    self.viol("C16", "emitted-frame-rejected-by-reference", format!("side {} emitted {} bytes the reference decoder rejects: {}", from, bytes.len(), hex(&bytes[..bytes.len().min(64)])));
                }
            }
            let now = self.now_ns;
            let s = &mut self.sides[from];
            // the credit spent here was capped with the RTT estimate in force at the fill, which is
            // the estimate of one step earlier than the one the application can read now
            s.tx_trace.push(TxEvent { t_ns: now, len: bytes.len() as u32, rtt_s: s.cur_rtt_s.max(s.prev_rtt_s), step_dt_ns: s.cur_step_dt_ns, after_app_flush: s.in_app_flush });
            if from == 0 {
                self.out.obs.push((now, hash_bytes(1, &bytes), "emit"));
            }
            let mut bytes = bytes;
            if self.twin == TwinMode::FragInject && self.inject && from == 0 {
                bytes = self.maybe_append_conflict(bytes);
            }
            self.transmit(from, bytes);
        }
    }

    /// C04 twin (forward link is ideal in these scenarios): append, after a genuine datagram of a
    /// multi-fragment packet, a datagram for the same packet id whose header disagrees with it.
    fn maybe_append_conflict(&mut self, bytes: Vec<u8>) -> Vec<u8> {
        if !self.inj_rng.chance(0.6) {
            return bytes;
        }
        let (sequence_id, nonce, mut datagrams) = match decode(&bytes) {
            Some(RFrame::Data { sequence_id, nonce, datagrams }) => (sequence_id, nonce, datagrams),
            _ => return bytes,
        };
        if datagrams.len() >= 126 {
            return bytes;
        }
        let rng = &mut self.inj_rng;
        let cands: Vec<usize> = datagrams.iter().enumerate().filter(|(_, d)| d.fragment_id_last > 0).map(|(i, _)| i).collect();
        if cands.is_empty() {
            return bytes;
        }
        let base = datagrams[cands[rng.below(cands.len() as u64) as usize]].clone();
        let mut bad = base.clone();
        match rng.below(5) {
            0 => bad.fragment_id_last = bad.fragment_id_last.wrapping_add(1).max(1),
            1 => bad.fragment_id_last = if bad.fragment_id_last > 1 { bad.fragment_id_last - 1 } else { bad.fragment_id_last + 2 },
            2 => bad.channel_id = (bad.channel_id + 1 + rng.below(62) as u8) % 64,
            3 => bad.window_parent_lead = bad.window_parent_lead.wrapping_add(1 + rng.below(5) as u16),
            _ => {
                // keep the pair (channel lead, window lead) well-formed so the datagram reaches assembly
                bad.channel_parent_lead = bad.channel_parent_lead.wrapping_add(1 + rng.below(5) as u16);
                if bad.window_parent_lead == 0 || bad.channel_parent_lead < bad.window_parent_lead {
                    bad.window_parent_lead = 1;
                    bad.channel_parent_lead = bad.channel_parent_lead.max(1);
                }
            }
        }
        // the last fragment may have any length, so a short junk payload fits into the frame
        bad.fragment_id = bad.fragment_id_last;
        let len = rng.range(1, 64) as usize;
        bad.data = (0..len).map(|_| rng.u64() as u8).collect();
        if bad.channel_id == base.channel_id && bad.window_parent_lead == base.window_parent_lead && bad.channel_parent_lead == base.channel_parent_lead && bad.fragment_id_last == base.fragment_id_last {
            return bytes;
        }
        let sz: usize = datagrams.iter().map(datagram_encoded_size).sum::<usize>() + datagram_encoded_size(&bad) + 10;
        if sz > MAX_FRAME_SIZE {
            return bytes;
        }
        datagrams.push(bad);
        self.out.c.inc("conflicting_datagrams_injected");
        encode(&RFrame::Data { sequence_id, nonce, datagrams })
    }

    /// C15 twin: schedule hostile ack frames into side 0's inbox.
    fn maybe_inject_acks(&mut self) {
        if !(self.twin == TwinMode::AckInject && self.inject) {
            return;
        }
        // a flood (a third of the scenarios, a few times each): 30..45 ack frames of 150 groups each —
        // more groups than a frame window holds — naming unknown frames or carrying the wrong parity,
        // handed over in one step AHEAD of whatever genuine acknowledgements that step will read
        if self.scn.seed % 3 == 0 && self.inj_rng.chance(0.02) {
            let hc = self.sides[0].hc.as_ref().unwrap();
            let (fbase, fnext) = hc.verif_tx_frame_ids();
            let (pbase, _pnext) = hc.verif_tx_packet_ids();
            let span = fnext.wrapping_sub(fbase);
            let n_frames = self.inj_rng.range(30, 46);
            let mut frames: Vec<Vec<u8>> = Vec::new();
            for _ in 0..n_frames {
                let mut groups = Vec::new();
                for _ in 0..150 {
                    let rng = &mut self.inj_rng;
                    if span > 0 && rng.chance(0.5) {
                        let base_id = fbase.wrapping_add(rng.below(span as u64) as u32);
                        if let Some(par) = self.dirs[0].nonce_parity(base_id, 1) {
                            groups.push(RAckGroup { base_id, bitfield: 1, nonce: !par });
                            continue;
                        }
                    }
                    groups.push(RAckGroup { base_id: fnext.wrapping_add(rng.range(40, 100_000) as u32), bitfield: rng.u32() | 1, nonce: rng.chance(0.5) });
                }
                frames.push(encode(&RFrame::Acks { frame_window_base_id: fbase, packet_window_base_id: pbase, groups }));
            }
            self.out.c.inc("inj_ack_group_floods");
            for b in frames {
                self.seq += 1;
                self.out.c.inc("inj_ack_frames");
                // (time stamp 0: sorts ahead of the genuine frames due in this step)
                self.sides[0].inbox.push(Reverse(InFlight { t_ns: 0, seq: self.seq, bytes: b, injected: true }));
            }
            return;
        }
        if !self.inj_rng.chance(0.25) {
            return;
        }
        let rng = &mut self.inj_rng;
        let hc = self.sides[0].hc.as_ref().unwrap();
        let (fbase, fnext) = hc.verif_tx_frame_ids();
        let (pbase, _pnext) = hc.verif_tx_packet_ids();
        let kind = rng.below(7);
        let bytes: Option<Vec<u8>> = match kind {
            6 => {
                // ids that are NOT in the sender's log but congruent to logged ones modulo a power
                // of two (2^16, 2^20 = the packet id space, 2^24, 2^31), carrying the nonce parity
                // that would be right for the frames they alias
                let span = fnext.wrapping_sub(fbase);
                if span == 0 {
                    None
                } else {
                    let real = fbase.wrapping_add(rng.below(span as u64) as u32);
                    let maxbits = fnext.wrapping_sub(real).min(32);
                    let mut bitfield = 1u32;
                    for b in 1..maxbits {
                        if rng.chance(0.3) {
                            bitfield |= 1 << b;
                        }
                    }
                    let shift = (1u32 << *rng.pick(&[16u32, 20, 20, 20, 24, 31])).wrapping_mul(rng.range(1, 3) as u32);
                    let base_id = if rng.chance(0.5) { real.wrapping_add(shift) } else { real.wrapping_sub(shift) };
                    match self.dirs[0].nonce_parity(real, bitfield) {
                        Some(par) if shift != 0 => {
                            self.out.c.inc("inj_aliased_ids_with_right_parity");
                            Some(encode(&RFrame::Acks { frame_window_base_id: fbase, packet_window_base_id: pbase, groups: vec![RAckGroup { base_id, bitfield, nonce: par }] }))
                        }
                        _ => None,
                    }
                }
            }
            0 | 1 if !self.sides[0].captured_acks.is_empty() => {
                // verbatim replay of a genuine ack frame that was already delivered
                let n = self.sides[0].captured_acks.len();
                let i = if kind == 0 { n - 1 - rng.below(n.min(4) as u64) as usize } else { rng.below(n as u64) as usize };
                self.out.c.inc("inj_replay_of_delivered_ack");
                Some(self.sides[0].captured_acks[i].clone())
            }
            2 => {
                // groups over frames the sender knows, with the wrong nonce parity
                let span = fnext.wrapping_sub(fbase);
                if span == 0 {
                    None
                } else {
                    let mut groups = Vec::new();
                    for _ in 0..rng.range(1, 3) {
                        let base_id = fbase.wrapping_add(rng.below(span as u64) as u32);
                        let maxbits = fnext.wrapping_sub(base_id).min(32);
                        let mut bitfield = 1u32;
                        for b in 1..maxbits {
                            if rng.chance(0.5) {
                                bitfield |= 1 << b;
                            }
                        }
                        // true parity from the wire record, then flipped
                        if let Some(par) = self.dirs[0].nonce_parity(base_id, bitfield) {
                            if hc.verif_has_frame(base_id) {
                                self.out.c.inc("inj_wrong_nonce_over_known_frames");
                            }
                            groups.push(RAckGroup { base_id, bitfield, nonce: !par });
                        }
                    }
                    if groups.is_empty() {
                        None
                    } else {
                        Some(encode(&RFrame::Acks { frame_window_base_id: fbase, packet_window_base_id: pbase, groups }))
                    }
                }
            }
            3 => {
                // future / unknown frame ids
                let base_id = fnext.wrapping_add(rng.range(0, 5000) as u32);
                self.out.c.inc("inj_future_frames");
                Some(encode(&RFrame::Acks { frame_window_base_id: fbase, packet_window_base_id: pbase, groups: vec![RAckGroup { base_id, bitfield: rng.u32() | 1, nonce: rng.chance(0.5) }] }))
            }
            4 => {
                // long-forgotten ids
                let base_id = fbase.wrapping_sub(rng.range(20000, 1 << 30) as u32);
                self.out.c.inc("inj_forgotten_frames");
                Some(encode(&RFrame::Acks { frame_window_base_id: fbase, packet_window_base_id: pbase, groups: vec![RAckGroup { base_id, bitfield: rng.u32() | 1, nonce: rng.chance(0.5) }] }))
            }
            _ => {
                // group straddling the end of the log (some ids unknown)
                let base_id = fnext.wrapping_sub(rng.range(1, 8) as u32);
                self.out.c.inc("inj_straddling_next");
                Some(encode(&RFrame::Acks { frame_window_base_id: fbase, packet_window_base_id: pbase, groups: vec![RAckGroup { base_id, bitfield: 0xFFFF_FFFF, nonce: rng.chance(0.5) }] }))
            }
        };
        if let Some(b) = bytes {
            self.seq += 1;
            self.out.c.inc("inj_ack_frames");
            let t = self.now_ns;
            self.sides[0].inbox.push(Reverse(InFlight { t_ns: t, seq: self.seq, bytes: b, injected: true }));
        }
    }

    // ---- application ---------------------------------------------------------------------

    fn gen_len(rng: &mut Rng, class: LenClass, max_len: usize) -> usize {
        let class = if class == LenClass::Mixed {
            *rng.pick(&[LenClass::Tiny, LenClass::Small, LenClass::Small, LenClass::Medium, LenClass::Boundary, LenClass::Large])
        } else {
            class
        };
        let v = match class {
            LenClass::Tiny => rng.range(4, 16) as usize,
            LenClass::Minute => rng.range(4, 6) as usize,
            LenClass::Small => rng.range(4, 200) as usize,
            LenClass::Medium => rng.range(4, 3000) as usize,
            LenClass::Boundary => {
                let k = rng.range(1, 4) as usize;
                (k * MAX_FRAGMENT_SIZE + rng.below(5) as usize).saturating_sub(2)
            }
            LenClass::Large => {
                if rng.chance(0.2) {
                    max_len
                } else {
                    rng.log_range(4, max_len.max(4) as u64) as usize
                }
            }
            LenClass::Mixed => unreachable!(),
        };
        v.min(max_len).max(if max_len >= 4 { 4 } else { 0 })
    }

    fn pick_mode(rng: &mut Rng, w: &[u32; 4]) -> Mode {
        let total: u32 = w.iter().sum();
        let mut r = rng.below(total.max(1) as u64) as u32;
        for (i, &x) in w.iter().enumerate() {
            if r < x {
                return [Mode::TimeSensitive, Mode::Unreliable, Mode::Persistent, Mode::Reliable][i];
            }
            r -= x;
        }
        Mode::Reliable
    }

    fn submit_one(&mut self, i: usize, chan: u8, mode: Mode, len: usize, ambiguous: bool) -> bool {
        let t = self.now_ns;
        let epoch = self.sides[i].steps;
        let uid = if ambiguous {
            self.amb_counter[i] += 1;
            self.amb_counter[i]
        } else {
            self.uid_counter[i] += 1;
            self.uid_counter[i]
        };
        let data = self.dirs[i].submit(chan, mode, len, uid, t, epoch);
        let um = mode.to_uflow();
        self.sides[i].sent_packets += 1;
        if self.verbose {
            self.ev(format!("side {} submits #{} {} chan {} {} bytes", i, self.dirs[i].subs.len() - 1, mode.name(), chan, len));
        }
        let hc = self.sides[i].hc.as_mut().unwrap();
        let r = uflow_call!(self, 3, "send()", hc.send(data, chan, um));
        r.is_some()
    }

    fn app_turn(&mut self, i: usize) -> bool {
        let tr = &self.scn.traffic[i];
        let t = self.now_ns;
        if !tr.script.is_empty() && self.sides[i].sent_packets == 0 {
            for k in 0..tr.script.len() {
                let (chan, mode, len) = self.scn.traffic[i].script[k];
                if !self.submit_one(i, chan, mode, len, len < 4) {
                    return false;
                }
            }
            return true;
        }
        let in_idle_span = tr.idle.iter().any(|&(a, b)| t >= a && t < b);
        if t >= tr.start_ns && t < tr.stop_ns && !in_idle_span && self.sides[i].sent_packets < tr.total && self.app_rng[i].chance(tr.per_step_p) {
            let n = self.app_rng[i].range(tr.burst.0, tr.burst.1) as usize;
            for _ in 0..n {
                if self.sides[i].sent_packets >= tr.total {
                    break;
                }
                if tr.pattern == 1 {
                    // reliable runs
                    if self.run_left[i] == 0 {
                        let rng = &mut self.app_rng[i];
                        self.run_left[i] = *rng.pick(&[126u32, 127, 128, 129, 130, 254, 255, 256, 257, 60, 300]) + 1;
                        let chan = tr.channels[0];
                        let len = rng.range(4, 40) as usize;
                        if !self.submit_one(i, chan, Mode::Reliable, len, false) {
                            return false;
                        }
                    } else {
                        let rng = &mut self.app_rng[i];
                        let chan = if rng.chance(0.7) { tr.channels[0] } else { *rng.pick(&tr.channels) };
                        let mode = *rng.pick(&[Mode::Unreliable, Mode::Unreliable, Mode::Persistent]);
                        let len = rng.range(4, 62) as usize;
                        if !self.submit_one(i, chan, mode, len, false) {
                            return false;
                        }
                    }
                    self.run_left[i] -= 1;
                    continue;
                }
                let rng = &mut self.app_rng[i];
                let (chan, mode, len, amb) = if tr.pattern == 2 {
                    // uniform fragments: same shape for every packet (same channel, same fragment count)
                    let nf = 2 + (self.scn.seed % 3) as usize;
                    let len = (nf - 1) * MAX_FRAGMENT_SIZE + 1 + rng.below((MAX_FRAGMENT_SIZE - 1) as u64) as usize;
                    (tr.channels[0], Self::pick_mode(rng, &tr.mode_w), len.min(tr.max_len), false)
                } else if rng.chance(tr.amb_p) {
                    let mode = if tr.amb_reliable { Mode::Reliable } else if rng.chance(0.5) { Mode::Unreliable } else { Mode::Persistent };
                    (tr.channels[0], mode, rng.below(4) as usize, true)
                } else {
                    let chan = *rng.pick(&tr.channels);
                    let mode = Self::pick_mode(rng, &tr.mode_w);
                    (chan, mode, Self::gen_len(rng, tr.len_class, tr.max_len), false)
                };
                if !self.submit_one(i, chan, mode, len, amb) {
                    return false;
                }
            }
        }
        // C11 probes: after the network has been fair for a while, a short train of each mode
        if let Some(after) = tr.probes_after_ns {
            if t >= after && !self.sides[i].probes_sent {
                self.sides[i].probes_sent = true;
                let chan = *tr.channels.last().unwrap();
                for m in [Mode::Reliable, Mode::Persistent, Mode::Unreliable, Mode::TimeSensitive] {
                    for _ in 0..3 {
                        if !self.submit_one(i, chan, m, 40, false) {
                            return false;
                        }
                    }
                }
                self.out.c.inc("probe_trains");
            }
        }
        true
    }

    // ---- one endpoint step (mirrors Client::step / Server::step) ---------------------------

    fn do_flush(&mut self, i: usize, what: &'static str) -> bool {
        let mut frames = Vec::new();
        {
            let hc = self.sides[i].hc.as_mut().unwrap();
            let mut sink = VecSink { frames: &mut frames };
            if uflow_call!(self, 2, what, hc.flush(&mut sink)).is_none() {
                return false;
            }
        }
        self.process_emitted(i, frames);
        let real_next = self.sides[i].hc.as_ref().unwrap().verif_tx_packet_ids().1;
        self.dirs[i].note_pulled(real_next);
        self.observe_sender(i, what);
        true
    }

    fn observe_sender(&mut self, i: usize, at: &str) {
        let hc = self.sides[i].hc.as_ref().unwrap();
        let sbs = hc.send_buffer_size();
        let pending = hc.is_send_pending();
        self.dirs[i].check_sender_observables(sbs, pending, at);
    }

    fn side_step(&mut self, i: usize) -> bool {
        uv::time::set_virtual_ns(Some(self.now_ns + self.epoch_ns));
        {
            // step interval that ends at this instant (the credit for it is granted by this step)
            let now = self.now_ns;
            let s = &mut self.sides[i];
            s.cur_step_dt_ns = if s.steps == 0 { 0 } else { now - s.last_step_ns };
        }
        // 1. flush (with the credit and clock values of the previous step)
        if !self.do_flush(i, "flush() at start of step") {
            return false;
        }
        // hostile ack frames (C15 twin) are composed against the sender's state at this very moment
        // and handed over in this step, so "unknown frame" and "wrong parity" are exact
        if i == 0 {
            self.maybe_inject_acks();
        }
        // 2. frames that have arrived
        loop {
            let due = match self.sides[i].inbox.peek() {
                Some(Reverse(f)) => f.t_ns <= self.now_ns,
                None => false,
            };
            if !due {
                break;
            }
            let Reverse(f) = self.sides[i].inbox.pop().unwrap();
            self.out.c.inc("frames_arrived");
            let parsed = match uflow_call!(self, 9, "Frame::read", uv::frame::Frame::read(&f.bytes)) {
                Some(p) => p,
                None => return false,
            };
            let reference = decode(&f.bytes);
            let frame = match parsed {
                Some(fr) => fr,
                None => {
                    self.out.c.inc("frames_rejected_by_reader");
                    continue;
                }
            };
            if reference.is_none() {
                self.viol("C16", "corrupt-frame-accepted", format!("reader accepted {} bytes the reference rejects: {}", f.bytes.len(), hex(&f.bytes[..f.bytes.len().min(48)])));
                continue;
            }
            let reference = reference.unwrap();
            match frame {
                uv::frame::Frame::DataFrame(df) => {
                    let hc = self.sides[i].hc.as_mut().unwrap();
                    if uflow_call!(self, 4, "handle_data_frame", hc.handle_data_frame(df)).is_none() {
                        return false;
                    }
                }
                uv::frame::Frame::AckFrame(af) => {
                    {
                        let hc = self.sides[i].hc.as_ref().unwrap();
                        let has = |id: u32| hc.verif_has_frame(id);
                        self.dirs[i].on_ack_to_sender(&reference, &has);
                    }
                    if f.injected {
                        let now = self.now_ns;
                        let hc = self.sides[i].hc.as_ref().unwrap();
                        let d = format!("{:?} log=[{:?}] tx_packets={:?}", reference, hc.verif_tx_frame_ids(), hc.verif_tx_packet_ids());
                        self.out.inj_log.push((now, d));
                    }
                    if !f.injected && i == 0 && self.twin == TwinMode::AckInject && self.sides[0].captured_acks.len() < 64 {
                        self.sides[0].captured_acks.push(f.bytes.clone());
                    }
                    let hc = self.sides[i].hc.as_mut().unwrap();
                    if uflow_call!(self, 5, "handle_ack_frame", hc.handle_ack_frame(af)).is_none() {
                        return false;
                    }
                    self.observe_sender(i, "handle_ack_frame");
                }
                uv::frame::Frame::SyncFrame(sf) => {
                    let hc = self.sides[i].hc.as_mut().unwrap();
                    if uflow_call!(self, 6, "handle_sync_frame", hc.handle_sync_frame(sf)).is_none() {
                        return false;
                    }
                }
                _ => {}
            }
        }
        // 3. step
        {
            let hc = self.sides[i].hc.as_mut().unwrap();
            if uflow_call!(self, 1, "step()", hc.step()).is_none() {
                return false;
            }
        }
        self.dirs[i].on_sender_step();
        // C14 (live): "the RTT estimate is the 0.9/0.1 moving average of the samples", where the
        // sample of a step is the time since the newest data frame that was first acknowledged
        // since the previous step left the sender (RFC 5348 4.3). The reference is fed from the
        // wire times and the ack groups the boundary model accepted, not from the sender.
        if self.twin == TwinMode::None && self.dirs[i].honest_peer {
            if let Some(sent_ms) = self.dirs[i].fb_newest_send_ms.take() {
                let now_ms = (self.now_ns / MS) as u32;
                let sample = now_ms.saturating_sub(sent_ms) as f64;
                let r = match self.sides[i].rtt_ref_ms {
                    Some(r) => 0.9 * r + 0.1 * sample,
                    None => sample,
                };
                self.sides[i].rtt_ref_ms = Some(r);
                self.out.c.inc("live_rtt_samples_checked");
                let got = self.sides[i].hc.as_ref().unwrap().rtt_s().map(|x| x * 1000.0);
                let ok = got.map_or(false, |g| (g - r).abs() <= 1.5 + 1e-9 * r);
                if !ok && !self.sides[i].rtt_ref_reported {
                    self.sides[i].rtt_ref_reported = true;
                    let t = self.now_ns / MS;
                    self.viol("C14", "live-rtt-estimate", format!("side {} after step at t={} ms: RTT estimate {:?} ms, the 0.9/0.1 moving average of the samples is {:.3} ms (this step's sample: {} ms = time since the newest frame first acknowledged since the previous step was emitted, by the sender's own clock reading t={} ms)", i, t, got, r, sample, sent_ms));
                }
            }
        } else {
            self.dirs[i].fb_newest_send_ms = None;
        }
        {
            let now = self.now_ns;
            let s = &mut self.sides[i];
            s.last_step_ns = now;
            s.steps += 1;
            let hc = s.hc.as_ref().unwrap();
            s.prev_rtt_s = s.cur_rtt_s;
            s.cur_rtt_s = hc.rtt_s().unwrap_or(0.0);
            let rate = hc.verif_send_rate();
            s.min_rate_seen = s.min_rate_seen.min(rate);
            s.max_rate_seen = s.max_rate_seen.max(rate);
            let limit = s.rate_limit as f64;
            let rtt = hc.rtt_s();
            if i == 0 && self.twin == TwinMode::AckInject {
                // sender observables after every step (C15 twin comparison)
                self.out.obs.push((now, rtt.map_or(0, |r| r.to_bits()), "rtt_s"));
                self.out.obs.push((now, rate.to_bits(), "send-rate"));
                self.out.obs.push((now, hc.send_buffer_size() as u64, "send_buffer_size"));
                self.out.obs.push((now, hc.is_send_pending() as u64, "is_send_pending"));
            }
            // C14 (live sample): the allowed rate never exceeds the ceiling, never below s/64
            if limit >= 1472.0 && rate > limit {
                self.viol("C14", "live-rate-above-ceiling", format!("side {} allowed send rate {} exceeds the ceiling {} after step at t={} ms", i, rate, limit, now / MS));
            }
            if limit >= MIN_RATE && rate < MIN_RATE {
                self.viol("C14", "live-rate-below-floor", format!("side {} allowed send rate {} below s/64 after step at t={} ms", i, rate, now / MS));
            }
        }
        if self.verbose && std::env::var("VERIF_TRACE_CREDIT").is_ok() {
            let hc = self.sides[i].hc.as_ref().unwrap();
            eprintln!("[{:>9.3} ms] side {} after step(): credit {} rate {} rtt {:?}", self.now_ns as f64 / 1e6, i, hc.verif_flush_alloc(), hc.verif_send_rate(), hc.rtt_s());
        }
        self.observe_sender(i, "step()");
        // 4. receive
        let mut pkts: Vec<Box<[u8]>> = Vec::new();
        {
            let hc = self.sides[i].hc.as_mut().unwrap();
            let mut sink = PktSink { pkts: &mut pkts };
            if uflow_call!(self, 7, "receive()", hc.receive(&mut sink)).is_none() {
                return false;
            }
        }
        let now = self.now_ns;
        for p in pkts.iter() {
            self.dirs[1 - i].on_delivery(p, now);
            self.out.delivered_log[1 - i].push(hash_bytes(7, p));
        }
        drop(pkts);
        // 5. application
        if !self.app_turn(i) {
            return false;
        }
        let extra = self.scn.traffic[i].extra_flushes;
        if extra > 0 {
            let n = self.app_rng[i].range(0, extra);
            for _ in 0..n {
                self.sides[i].in_app_flush = true;
                let ok = self.do_flush(i, "application flush()");
                self.sides[i].in_app_flush = false;
                if !ok {
                    return false;
                }
            }
        }
        true
    }

    fn next_step_time(&mut self, i: usize) -> u64 {
        let dt = match self.scn.cadence[i] {
            Cadence::Fixed(d) => d,
            Cadence::Jitter(lo, hi) => self.app_rng[i].range(lo, hi),
        };
        let mut t = self.now_ns + dt;
        for p in &self.scn.pauses[i] {
            if t >= p.from_ns && t < p.until_ns {
                t = p.until_ns;
            }
        }
        t
    }

    fn quiescent(&self, i: usize) -> bool {
        let hc = self.sides[i].hc.as_ref().unwrap();
        // all_settled(): zero-length packets do not show in send_buffer_size(), so the model's
        // packet count decides when the last one has been passed by the receiver
        !hc.is_send_pending() && hc.send_buffer_size() == 0 && self.dirs[i].all_settled()
    }

    fn diagnosis(&self) -> String {
        let mut s = String::new();
        for i in 0..2 {
            let hc = self.sides[i].hc.as_ref().unwrap();
            let (q, p, r) = hc.verif_queue_lens();
            s.push_str(&format!(
                "side{}{{rate={} B/s ceiling={} rtt={:?} rto={:?} credit={} queue={} pending_frags={} resend_entries={} sbs={} frame_log={} tx_frames={:?} tx_packets={:?}}} ",
                i,
                hc.verif_send_rate(),
                self.sides[i].rate_limit,
                hc.rtt_s(),
                hc.verif_rto_ms(),
                hc.verif_flush_alloc(),
                q,
                p,
                r,
                hc.send_buffer_size(),
                hc.verif_frame_log_len(),
                hc.verif_tx_frame_ids(),
                hc.verif_tx_packet_ids()
            ));
        }
        s
    }

    /// Runs the scenario to quiescence, a stall verdict or the horizon.
    pub fn run(mut self) -> Outcome {
        let fair_from = self.scn.fair_from_ns();
        let traffic_end = self.scn.traffic.iter().map(|t| t.stop_ns.max(t.probes_after_ns.unwrap_or(0))).max().unwrap_or(0);
        let mut total_steps = 0u64;
        let dud0 = uv::dud_count();
        if self.epoch_ns != 0 {
            self.out.c.inc("halfconnections_2^31_ms_old_or_more");
        }
        loop {
            let i = if self.sides[0].next_step_ns <= self.sides[1].next_step_ns { 0 } else { 1 };
            self.now_ns = self.sides[i].next_step_ns;
            if self.now_ns > self.scn.horizon_ns || total_steps >= self.scn.max_steps {
                self.out.horizon_hit = true;
                break;
            }
            if !self.side_step(i) {
                break;
            }
            total_steps += 1;
            self.sides[i].next_step_ns = self.next_step_time(i);

            // progress bookkeeping
            let marker = self.dirs[0].progress_marker() + self.dirs[1].progress_marker();
            if marker != self.last_progress {
                self.last_progress = marker;
                self.last_progress_ns = self.now_ns;
            }
            let t = self.now_ns;
            if t > fair_from && t >= traffic_end {
                let all_submitted = (0..2).all(|k| self.sides[k].sent_packets >= self.scn.traffic[k].total || t >= self.scn.traffic[k].stop_ns);
                if self.quiescent(i) && all_submitted {
                    self.sides[i].quiet_steps += 1;
                } else {
                    self.sides[i].quiet_steps = 0;
                }
                if self.sides[0].quiet_steps >= 3 && self.sides[1].quiet_steps >= 3 {
                    self.out.quiescent = true;
                    break;
                }
                // stall detection (virtual time, progress based)
                let backlog = !self.quiescent(0) || !self.quiescent(1);
                let since = t - self.last_progress_ns.max(fair_from);
                let rto = (0..2).map(|k| self.sides[k].hc.as_ref().unwrap().verif_rto_ms().unwrap_or(600)).max().unwrap();
                let window_ns = (4 * rto.max(5000) * MS).max(600 * SEC);
                if backlog && since > window_ns {
                    self.out.stalled = true;
                    let d = self.diagnosis();
                    let class = self.stall_class();
                    self.out.violations.push(Violation::new("C11", "stall", &format!("C11:stall:{}", class), format!("no packet delivered, no fragment first-transmitted or acknowledged and no window movement for {} s of virtual time on a fair network with backlog (fair since t={} ms, now t={} ms); {}", since / SEC, fair_from / MS, t / MS, d)));
                    self.out.violations.push(Violation::new("C02", "stall", &format!("C02:stall:{}", class), format!("Reliable data not delivered: connection made no progress for {} s on a fair network; {}", since / SEC, self.diagnosis())));
                    // C12: was it the sender that stopped retransmitting an unacknowledged fragment?
                    for d in 0..2 {
                        let empty = {
                            let hc = self.sides[d].hc.as_ref().unwrap();
                            hc.verif_queue_lens() == (0, 0, 0) && hc.send_buffer_size() == 0
                        };
                        if let Some(m) = self.dirs[d].unacked_fragment_not_retransmitted((t / MS) as u32, (since / MS) as u32, empty) {
                            let name = self.dirs[d].name;
                            self.out.violations.push(Violation::new("C12", "unacked-fragment-not-retransmitted", "C12:unacked-fragment-not-retransmitted", format!("[{}] {}", name, m)));
                        }
                    }
                    break;
                }
                // pinned at the minimum rate
                for k in 0..2 {
                    let hc = self.sides[k].hc.as_ref().unwrap();
                    let pinned = hc.verif_send_rate() <= 4.0 * MIN_RATE && self.sides[k].rate_limit as f64 >= 64.0 * MIN_RATE && !self.quiescent(k);
                    if pinned {
                        let since = *self.pinned_since_ns[k].get_or_insert(t.max(fair_from));
                        if t - since > window_ns.max(self.scn.pinned_window_s * SEC) {
                            self.out.stalled = true;
                            let class = self.stall_class();
                            let d = self.diagnosis();
                            self.out.violations.push(Violation::new("C11", "pinned-at-minimum-rate", &format!("C11:pinned:{}", class), format!("side {} allowed rate stayed <= 92 B/s for {} s on a fair network with backlog and a ceiling of {} B/s; {}", k, (t - since) / SEC, self.sides[k].rate_limit, d)));
                            break;
                        }
                    } else {
                        self.pinned_since_ns[k] = None;
                    }
                }
                if self.out.stalled {
                    break;
                }
            }
        }
        self.out.t_end_ns = self.now_ns;
        self.out.c.add("side_steps", total_steps as i128);
        self.finish(dud0);
        self.out
    }

    fn stall_class(&self) -> String {
        let mut parts = Vec::new();
        let both_backlog = !self.quiescent(0) && !self.quiescent(1);
        parts.push(if both_backlog { "two-way-backlog" } else { "one-way-backlog" }.to_string());
        let at_floor: Vec<bool> = (0..2).map(|k| self.sides[k].hc.as_ref().unwrap().verif_send_rate() <= 4.0 * MIN_RATE).collect();
        parts.push(match (at_floor[0], at_floor[1]) {
            (true, true) => "both-at-floor",
            (false, false) => "none-at-floor",
            _ => "one-at-floor",
        }.to_string());
        let fast_steps = (0..2).any(|k| match self.scn.cadence[k] {
            Cadence::Fixed(d) => d < 22 * MS,
            Cadence::Jitter(_, hi) => hi < 22 * MS,
        });
        if fast_steps {
            parts.push("steps-under-22ms".to_string());
        }
        parts.join(",")
    }

    fn finish(&mut self, dud0: u64) {
        // end-state obligations
        if self.out.quiescent && !self.out.panicked {
            for d in 0..2 {
                self.dirs[d].check_quiescent_end();
            }
        }
        // C06 pair: a uflow receiver fed by a uflow sender never discards a packet for lack of memory
        let duds = uv::dud_count() - dud0;
        if duds > 0 && self.twin != TwinMode::FragInject {
            self.viol("C06", "dud-between-uflow-endpoints", format!("{} packets were replaced by data-less placeholders because the receive allocation was exceeded", duds));
        }
        // C13
        for i in 0..2 {
            self.check_rate(i);
        }
        // merge models
        for d in 0..2 {
            self.dirs[d].summary_counts();
            let v = std::mem::take(&mut self.dirs[d].violations);
            self.out.violations.extend(v);
            let items = std::mem::take(&mut self.dirs[d].c.items);
            for (k, val) in items {
                if k.starts_with("max_") {
                    self.out.c.max(k, val);
                } else {
                    self.out.c.add(k, val);
                }
            }
        }
        self.out.delivered_hash = mix(self.dirs[0].delivered_sequence_hash(), self.dirs[1].delivered_sequence_hash());
        for i in 0..2 {
            if self.sides[i].min_rate_seen != f64::MAX {
                self.out.c.max("max_send_rate_seen", self.sides[i].max_rate_seen as i128);
            }
        }
        // C19: teardown returns everything
        let h0 = self.heap_before;
        for i in 0..2 {
            let hc = self.sides[i].hc.take();
            let _ = uflow_call!(self, 11, "drop(HalfConnection)", drop(hc));
        }
        if crate::checkalloc_active() {
            let live = alloc::live_bytes(alloc::TAG_UFLOW);
            self.out.c.inc("teardowns_checked");
            if live != h0 && !self.out.panicked {
                self.viol("C19", "leak-on-teardown", format!("{} bytes allocated inside uflow calls are still live after both HalfConnections were dropped", live - h0));
            }
            let (n, viols) = alloc::take_violations();
            if n > 0 {
                let v = viols[0];
                let what = match v.kind {
                    1 => "dealloc",
                    3 => "realloc",
                    _ => "free of unknown pointer",
                };
                let class = if v.kind == 2 { "unknown-pointer".to_string() } else if v.free_size < v.alloc_size { "freed-with-smaller-size".to_string() } else if v.free_size > v.alloc_size { "freed-with-larger-size".to_string() } else { "align-mismatch".to_string() };
                self.out.violations.push(Violation::new("C19", "layout-mismatch", &format!("C19:layout-mismatch:{}", class), format!("{} allocator-contract violations; first: {} with size {} align {} of a block allocated with size {} align {}", n, what, v.free_size, v.free_align, v.alloc_size, v.alloc_align)));
            }
        }
        uv::time::set_virtual_ns(None);
        uv::rng::set_seed(None);
    }

    /// C13: bytes in any interval <= B*(dt + R) + 1472.
    fn check_rate(&mut self, i: usize) {
        let b = self.sides[i].rate_limit as f64;
        let tr = std::mem::take(&mut self.sides[i].tx_trace);
        check_rate_trace(i, b, &tr, &mut self.out.c, &mut self.out.violations);
    }
}

/// C13 oracle over a transmission trace: bytes in any interval <= B*(dt + R) + 1472.
pub fn check_rate_trace(i: usize, b: f64, tr: &[TxEvent], c: &mut Counters, violations: &mut Vec<Violation>) {
    if b < 1472.0 {
        return;
    }
    let n = tr.len();
    if n == 0 {
        return;
    }
    c.add("rate_events", n as i128);
    let mut worst_strict = 0.0f64;
    let mut worst: Option<(usize, usize, f64, f64, f64)> = None;
    let mut worst_grid = 0.0f64;
    // exact check over all intervals ending at j, looking back at most LOOKBACK events, plus a
    // running-minimum form with the running maximum RTT for longer intervals
    const LOOKBACK: usize = 600;
    let mut cum = vec![0f64; n + 1];
    for k in 0..n {
        cum[k + 1] = cum[k] + tr[k].len as f64;
    }
    for j in 0..n {
        let mut rmax = 0.0f64;
        let lo = j.saturating_sub(LOOKBACK);
        let mut k = j + 1;
        while k > lo {
            k -= 1;
            rmax = rmax.max(tr[k].rtt_s);
            // only interval starts that begin a new instant matter (closed interval)
            if k > 0 && tr[k - 1].t_ns == tr[k].t_ns && k > lo {
                continue;
            }
            let bytes = cum[j + 1] - cum[k];
            let dt = (tr[j].t_ns - tr[k].t_ns) as f64 / 1e9;
            let allowed = b * (dt + rmax) + 1472.0;
            let excess = bytes - allowed;
            if excess > worst_strict {
                worst_strict = excess;
                let d = tr[k].step_dt_ns as f64 / 1e9;
                let grid_allowed = b * (dt + rmax + d) + 1472.0;
                worst = Some((k, j, bytes, allowed, d));
                worst_grid = worst_grid.max(bytes - grid_allowed);
            }
        }
    }
    // long intervals: g(j) - min g^-(i) <= B*Rmax_so_far + 1472
    let mut min_g = f64::MAX;
    let mut rmax = 0.0f64;
    let mut long_excess = 0.0f64;
    let mut long_w = None;
    for j in 0..n {
        let t = tr[j].t_ns as f64 / 1e9;
        rmax = rmax.max(tr[j].rtt_s);
        if j == 0 || tr[j - 1].t_ns != tr[j].t_ns {
            let g_minus = cum[j] - b * t;
            if g_minus < min_g {
                min_g = g_minus;
            }
        }
        let g_plus = cum[j + 1] - b * t;
        let ex = g_plus - min_g - (b * rmax + 1472.0);
        if ex > long_excess {
            long_excess = ex;
            long_w = Some(j);
        }
    }
    let limited = c.get("rate_events");
    let _ = limited;
    if worst_strict > 0.5 {
        let (k, j, bytes, allowed, d) = worst.unwrap();
        let app_flush = tr[k..=j].iter().any(|e| e.after_app_flush);
        let msg = format!(
            "side {} sent {} bytes in [{} ms, {} ms] (events {}..{}), allowed {:.0} = B*(dt+R)+1472 with B={} R={:.4}s; excess {:.0} bytes; preceding step interval d={:.4}s (B*d={:.0}); application flush() in interval: {}",
            i, bytes, tr[k].t_ns / MS, tr[j].t_ns / MS, k, j, allowed, b, tr[k..=j].iter().fold(0.0f64, |m, e| m.max(e.rtt_s)), worst_strict, d, b * d, app_flush
        );
        if worst_grid <= 0.5 && app_flush {
            violations.push(Violation::new("C13", "burst-after-step-flush", "C13:strict-bound-exceeded-by-at-most-one-step-credit:app-flush-after-step", msg));
        } else if worst_grid <= 0.5 {
            violations.push(Violation::new("C13", "burst-within-grid", "C13:strict-bound-exceeded-by-at-most-one-step-credit:no-app-flush", msg));
        } else if worst_grid <= 1.5 {
            // credit is kept in whole bytes: the fraction carried from before the interval's first
            // byte (< 1 byte) is granted inside it, and the burst cap rate x RTT is rounded to the
            // nearest byte (<= 0.5 byte above it)
            violations.push(Violation::new("C13", "burst-within-grid-plus-carry", "C13:strict-bound-exceeded-by-at-most-one-step-credit:plus-sub-byte-credit-carry", msg));
        } else {
            violations.push(Violation::new("C13", "rate-exceeded", "C13:rate-exceeded-beyond-step-credit", msg));
        }
    } else if long_excess > 0.5 {
        let j = long_w.unwrap();
        violations.push(Violation::new("C13", "long-run-rate-exceeded", "C13:long-run-rate-exceeded", format!("side {} cumulative bytes up to t={} ms exceed B*(dt+Rmax)+1472 by {:.0} bytes over a long interval (B={}, Rmax={:.4}s)", i, tr[j].t_ns / MS, long_excess, b, rmax)));
    }
}

impl DirModel {
    /// XOR of the recorded nonces of the frames a bitfield claims (None if any is unknown).
    pub fn nonce_parity(&self, base_id: u32, bitfield: u32) -> Option<bool> {
        let mut p = false;
        for i in 0..32 {
            if bitfield >> i & 1 != 0 {
                p ^= self.frame_nonce(base_id.wrapping_add(i))?;
            }
        }
        Some(p)
    }
}
