// Scenario families for hcsim and the mapping from an Outcome to the worker's output record.

use crate::hcsim::*;
use crate::util::*;
use crate::wire::MAX_FRAGMENT_SIZE;
use crate::{Params, ScnOut};

fn pick_window(rng: &mut Rng) -> u32 {
    let k = match rng.below(10) {
        0 => 2,
        1 => 3,
        2 => 4,
        3 => 5,
        4 => 6,
        5 => rng.range(7, 11),
        _ => 12,
    };
    1 << k
}

fn pick_nonce(rng: &mut Rng, window: u32) -> u32 {
    match rng.below(5) {
        0 => 0u32.wrapping_sub(rng.range(0, 3 * window as u64) as u32), // frame ids wrap at 2^32 (and packet ids at 2^20)
        1 => (rng.u32() << 20) | (0xFFFFF - rng.range(0, 3 * window as u64) as u32), // packet ids wrap at 2^20
        2 => rng.range(0, 3) as u32,
        _ => rng.u32(),
    }
}

fn pick_rate_fast(rng: &mut Rng) -> u32 {
    *rng.pick(&[200_000u32, 500_000, 1_000_000, 2_000_000, 10_000_000, u32::MAX])
}

fn pick_cadence(rng: &mut Rng) -> Cadence {
    match rng.below(8) {
        0 => Cadence::Fixed(MS),
        1 => Cadence::Fixed(5 * MS),
        2 => Cadence::Fixed(16 * MS + 666_667),
        3 => Cadence::Fixed(30 * MS),
        4 => Cadence::Fixed(*rng.pick(&[50u64, 100, 200]) * MS),
        // several steps within one millisecond; an application that does not sleep between steps
        // (busy loop: every step interval below one millisecond)
        5 => match rng.below(3) {
            0 => Cadence::Jitter(100_000, 3 * MS),
            1 => Cadence::Fixed(250_000),
            _ => Cadence::Jitter(20_000, 900_000),
        },
        6 => Cadence::Jitter(5 * MS, 60 * MS),
        _ => Cadence::Jitter(MS, 150 * MS),
    }
}

fn pick_channels(rng: &mut Rng) -> Vec<u8> {
    match rng.below(4) {
        0 => vec![rng.below(64) as u8],
        1 => {
            let a = rng.below(64) as u8;
            vec![a, (a + 1 + rng.below(62) as u8) % 64]
        }
        2 => (0..64).collect(),
        _ => {
            let n = rng.range(3, 12);
            let mut v: Vec<u8> = Vec::new();
            while (v.len() as u64) < n {
                let c = rng.below(64) as u8;
                if !v.contains(&c) {
                    v.push(c);
                }
            }
            v
        }
    }
}

fn pick_modes(rng: &mut Rng) -> [u32; 4] {
    match rng.below(8) {
        0 => [0, 0, 0, 1],
        1 => [0, 1, 0, 0],
        2 => [1, 1, 1, 1],
        3 => [3, 1, 1, 1],
        4 => [0, 1, 1, 2],
        5 => [0, 0, 1, 1],
        6 => [1, 0, 0, 1],
        _ => [1, 2, 2, 3],
    }
}

fn random_phase(rng: &mut Rng, until_ns: u64, harsh: bool) -> LinkPhase {
    let loss = *rng.pick(if harsh { &[0.0, 0.1, 0.5, 0.9, 1.0][..] } else { &[0.0, 0.01, 0.1, 0.3][..] });
    LinkPhase {
        until_ns,
        loss,
        dup: *rng.pick(&[0.0, 0.0, 0.05, 0.3]),
        reorder: *rng.pick(&[0.0, 0.0, 0.1, 0.5]),
        reorder_max_ms: rng.log_range(1, 300),
        corrupt: *rng.pick(&[0.0, 0.0, 0.02, 0.2]),
        blackout: harsh && rng.chance(0.2),
        loss_mask: *rng.pick(&[7u8, 7, 7, 1, 2, 4, 3, 6]),
        latency_ms: if rng.chance(0.15) { Some(rng.log_range(1, 400)) } else { None },
    }
}

fn faulty_link(rng: &mut Rng, fault_len_ns: u64, harsh: bool) -> Link {
    let n = rng.range(1, 3);
    let mut phases = Vec::new();
    let mut t = 0;
    for k in 0..n {
        let d = if k == n - 1 { fault_len_ns.saturating_sub(t).max(MS) } else { rng.range(fault_len_ns / 10, fault_len_ns / 2 + 1) };
        t += d;
        phases.push(random_phase(rng, t, harsh));
    }
    Link { latency_ms: *rng.pick(&[0u64, 1, 5, 20, 50, 100, 200, 400]), phases }
}

fn ideal_link(rng: &mut Rng) -> Link {
    Link { latency_ms: *rng.pick(&[0u64, 1, 5, 20, 50, 100, 200, 400]), phases: Vec::new() }
}

fn default_traffic(rng: &mut Rng, total: usize, max_len: usize, stop_ns: u64) -> Traffic {
    Traffic {
        total,
        per_step_p: *rng.pick(&[0.1, 0.3, 0.7, 1.0]),
        burst: (1, *rng.pick(&[1u64, 3, 10, 40])),
        channels: pick_channels(rng),
        mode_w: pick_modes(rng),
        len_class: *rng.pick(&[LenClass::Tiny, LenClass::Small, LenClass::Medium, LenClass::Boundary, LenClass::Mixed, LenClass::Mixed]),
        max_len,
        start_ns: 0,
        stop_ns,
        amb_p: *rng.pick(&[0.0, 0.0, 0.1, 0.5]),
        amb_reliable: rng.chance(0.5),
        extra_flushes: *rng.pick(&[0u64, 0, 1, 3]),
        probes_after_ns: None,
        script: Vec::new(),
        pattern: 0,
        idle: Vec::new(),
    }
}

/// A quarter of the senders fall silent for 2.5..9 s once or twice in the middle of their
/// activity and resume (drawn from a stream of its own, so the scenario is otherwise unchanged).
pub fn add_idle_spans(s: &mut Scenario) {
    let mut rng = Rng::new(s.seed ^ 0x1d1e_5a5a);
    for t in s.traffic.iter_mut() {
        if t.total == 0 || t.stop_ns <= t.start_ns || !t.script.is_empty() || !rng.chance(0.25) {
            continue;
        }
        for _ in 0..rng.range(1, 2) {
            let from = rng.range(t.start_ns, t.stop_ns);
            let len = rng.range(2500, 9000) * MS;
            t.idle.push((from, from + len));
            t.stop_ns += len;
        }
    }
}

fn silent_traffic(rng: &mut Rng) -> Traffic {
    let mut t = default_traffic(rng, 0, 4, 0);
    t.total = 0;
    t
}

pub struct Size {
    pub packets: usize,
    pub fault_s: u64,
}

fn size_of(params: &Params) -> Size {
    Size { packets: params.u64("packets", 300) as usize, fault_s: params.u64("fault_s", 10) }
}

/// C01/C12/C20 base family: all fates in both directions, small and large windows, wrap-around.
pub fn gen_faulty(seed: u64, params: &Params) -> Scenario {
    let mut rng = Rng::new(seed);
    let sz = size_of(params);
    let window = pick_window(&mut rng);
    let fault_ns = rng.range(1, sz.fault_s.max(1)) * SEC;
    let two_way = rng.chance(0.5);
    let rx_alloc = [*rng.pick(&[3_000usize, 20_000, 100_000, 1_000_000]), *rng.pick(&[3_000usize, 20_000, 100_000, 1_000_000])];
    let cfg = [
        SideCfg { nonce: pick_nonce(&mut rng, window), max_send_rate: pick_rate_fast(&mut rng), max_receive_rate: pick_rate_fast(&mut rng), rx_alloc: rx_alloc[0], keepalive: Some(5000) },
        SideCfg { nonce: pick_nonce(&mut rng, window), max_send_rate: pick_rate_fast(&mut rng), max_receive_rate: pick_rate_fast(&mut rng), rx_alloc: rx_alloc[1], keepalive: if rng.chance(0.8) { Some(5000) } else { None } },
    ];
    let n0 = rng.range((sz.packets / 10).max(1) as u64, sz.packets as u64) as usize;
    let n1 = if two_way { rng.range(1, sz.packets as u64) as usize } else { 0 };
    let stop = fault_ns + rng.range(0, 5) * SEC;
    let mut t0 = default_traffic(&mut rng, n0, rx_alloc[1].min(6000), stop);
    let mut t1 = if two_way { default_traffic(&mut rng, n1, rx_alloc[0].min(6000), stop) } else { silent_traffic(&mut rng) };
    // keep the number of bytes moderate so the scenario ends within the horizon at the floor rate too
    t0.stop_ns = stop;
    t1.stop_ns = stop;
    let link = [faulty_link(&mut rng, fault_ns, false), faulty_link(&mut rng, fault_ns, false)];
    Scenario {
        seed,
        window,
        cfg,
        link,
        cadence: [pick_cadence(&mut rng), pick_cadence(&mut rng)],
        pauses: [Vec::new(), Vec::new()],
        traffic: [t0, t1],
        horizon_ns: stop + 3 * 3600 * SEC,
        ideal: false,
        max_steps: params.u64("max_steps", 3_000_000),
        pinned_window_s: params.u64("pinned_window_s", 14400),
    }
}

/// C05: ideal network (constant latency per direction, no faults), bursts above budgets/windows.
pub fn gen_ideal(seed: u64, params: &Params) -> Scenario {
    let mut rng = Rng::new(seed);
    let sz = size_of(params);
    let mut s = gen_faulty(seed ^ 0x1dea1, params);
    s.ideal = true;
    s.link = [ideal_link(&mut rng), ideal_link(&mut rng)];
    s.pauses = [Vec::new(), Vec::new()];
    if rng.chance(0.25) {
        // runs of small non-Reliable packets behind one Reliable packet: parent leads reach the
        // boundaries of the datagram header encodings (127/128, 255/256)
        s.window = 4096;
        for t in s.traffic.iter_mut() {
            if t.total > 0 {
                t.pattern = 1;
                t.amb_p = 0.0;
                t.total = t.total.max(600);
            }
        }
        for c in s.cfg.iter_mut() {
            c.rx_alloc = c.rx_alloc.max(100_000);
        }
    }
    // bursty submission
    for t in s.traffic.iter_mut() {
        if t.total > 0 {
            t.burst = (1, *rng.pick(&[10u64, 100, 1000, 5000]));
            t.per_step_p = *rng.pick(&[0.05, 0.2, 1.0]);
            t.total = rng.range((sz.packets / 4).max(1) as u64, (sz.packets * 2) as u64) as usize;
        }
    }
    if rng.chance(0.15) {
        // an application that stops calling step() for seconds while multi-fragment packets are on
        // their way to it, over a connection with a small frame window (so the sender is
        // frame-window-limited in mid-packet and its sync timer runs): nothing of this is a fault of
        // the network, and everything must still arrive
        s.window = *rng.pick(&[4u32, 8, 16, 32, 64]);
        let mut t_stop = 0u64;
        for t in s.traffic.iter_mut() {
            if t.total > 0 {
                t.len_class = *rng.pick(&[LenClass::Boundary, LenClass::Large, LenClass::Mixed]);
                t.max_len = *rng.pick(&[8000usize, 30_000, 100_000]);
                t.amb_p = 0.0;
                t_stop = t_stop.max(t.stop_ns);
            }
        }
        for c in s.cfg.iter_mut() {
            c.rx_alloc = c.rx_alloc.max(200_000);
        }
        for i in 0..2 {
            for _ in 0..rng.range(1, 4) {
                let from = rng.range(0, t_stop.max(2 * SEC));
                s.pauses[i].push(Pause { from_ns: from, until_ns: from + rng.range(2100, 12_000) * MS });
            }
        }
    }
    if params.flag("tiny_bursts") && rng.chance(0.6) {
        // the small end of the size range (C04): hundreds of 4..5-byte packets (and 0..3-byte ones
        // on the designated channel) queued at once on a fast connection, so that data frames are
        // filled with as many datagrams as fit
        for t in s.traffic.iter_mut() {
            if t.total > 0 {
                t.len_class = LenClass::Minute;
                t.burst = (150, *rng.pick(&[300u64, 1000, 3000]));
                t.per_step_p = *rng.pick(&[0.02, 0.1, 0.5]);
                t.total = t.total.max(900);
                t.mode_w = *rng.pick(&[[0, 1, 0, 0], [0, 3, 1, 1], [1, 2, 1, 1], [0, 0, 0, 1]]);
            }
        }
        for c in s.cfg.iter_mut() {
            c.max_send_rate = *rng.pick(&[1_000_000u32, 10_000_000]);
            c.max_receive_rate = c.max_receive_rate.max(1_000_000);
            c.rx_alloc = c.rx_alloc.max(100_000);
        }
        s.window = s.window.max(1024);
    }
    s
}

/// C04: multi-fragment heavy, flush budgets cutting packets, one packet sizes sweep handled by `frag-len`.
pub fn gen_frag(seed: u64, params: &Params) -> Scenario {
    let mut rng = Rng::new(seed);
    let mut s = gen_faulty(seed ^ 0xf4a6, params);
    let big = *rng.pick(&[20_000usize, 100_000, 300_000, 1_000_000]);
    s.cfg[0].rx_alloc = big;
    s.cfg[1].rx_alloc = big;
    for (i, t) in s.traffic.iter_mut().enumerate() {
        let _ = i;
        if t.total > 0 {
            t.len_class = *rng.pick(&[LenClass::Boundary, LenClass::Large, LenClass::Mixed]);
            t.max_len = *rng.pick(&[3000usize, 8000, 20_000, big.min(200_000)]).min(&big);
            t.total = t.total.min(params.u64("frag_packets", 60) as usize).max(1);
            t.amb_p = 0.0;
        }
    }
    // rates that cut packets across several flushes
    for c in s.cfg.iter_mut() {
        c.max_send_rate = *rng.pick(&[50_000u32, 200_000, 1_000_000, 10_000_000]);
    }
    if rng.chance(0.3) {
        // same-shaped packets (one channel, one fragment count) cycling a small window many times,
        // mostly unreliable, so that half-assembled packets are skipped and their slots reused
        s.window = *rng.pick(&[4u32, 8, 16, 32]);
        for t in s.traffic.iter_mut() {
            if t.total > 0 {
                t.pattern = 2;
                t.mode_w = *rng.pick(&[[1, 3, 1, 0], [0, 1, 0, 0], [1, 2, 1, 1]]);
                t.max_len = 6000;
                t.total = params.u64("frag_packets", 60) as usize * 4;
                t.per_step_p = 1.0;
                t.burst = (1, 6);
            }
        }
        for c in s.cfg.iter_mut() {
            c.max_send_rate = *rng.pick(&[200_000u32, 1_000_000]);
        }
    }
    s
}

/// C04 twin: forward link ideal (so the first fragment seen of every packet is genuine), reverse faulty.
pub fn gen_frag_twin(seed: u64, params: &Params) -> Scenario {
    let mut rng = Rng::new(seed ^ 0x7717);
    let mut s = gen_frag(seed, params);
    s.link[0] = ideal_link(&mut rng);
    s.traffic[1].total = 0;
    s.traffic[0].total = s.traffic[0].total.max(10);
    s.traffic[0].len_class = *rng.pick(&[LenClass::Boundary, LenClass::Large]);
    s.traffic[0].max_len = s.traffic[0].max_len.max(4000);
    s
}

/// C04: one packet of an exact length (the driver sweeps every length 0..=4*1448+2, then samples
/// larger ones), fragments duplicated / reordered / partially lost and resent.
pub fn gen_frag_len(seed: u64, len: usize) -> Scenario {
    use crate::model::Mode;
    let mut rng = Rng::new(seed);
    let mode = *rng.pick(&[Mode::Reliable, Mode::Persistent, Mode::Unreliable, Mode::TimeSensitive]);
    let mode = if len < 4 && mode == Mode::TimeSensitive { Mode::Unreliable } else { mode };
    let resends = mode.resends();
    let fault_ns = rng.range(1, 5) * SEC;
    let mut phase = LinkPhase::clean(fault_ns);
    phase.dup = *rng.pick(&[0.0, 0.3, 0.8]);
    if resends {
        phase.loss = *rng.pick(&[0.0, 0.2, 0.5]);
        phase.reorder = *rng.pick(&[0.0, 0.3, 0.8]);
        phase.reorder_max_ms = rng.range(1, 80);
    }
    let rx_alloc = len.max(1) + rng.below(3000) as usize;
    let chan = rng.below(64) as u8;
    let mut t0 = default_traffic(&mut rng, 1, rx_alloc, fault_ns + SEC);
    t0.channels = vec![chan];
    t0.script = vec![(chan, mode, len)];
    t0.amb_reliable = mode == Mode::Reliable;
    t0.extra_flushes = rng.below(3);
    let t1 = silent_traffic(&mut rng);
    let mut back = LinkPhase::clean(fault_ns);
    if resends {
        back.loss = *rng.pick(&[0.0, 0.3]);
    }
    Scenario {
        seed,
        window: *rng.pick(&[4u32, 64, 4096]),
        cfg: [
            SideCfg { nonce: pick_nonce(&mut rng, 64), max_send_rate: *rng.pick(&[3000u32, 20_000, 200_000, 10_000_000]), max_receive_rate: u32::MAX, rx_alloc: 4000, keepalive: Some(5000) },
            SideCfg { nonce: pick_nonce(&mut rng, 64), max_send_rate: 1_000_000, max_receive_rate: u32::MAX, rx_alloc, keepalive: Some(5000) },
        ],
        link: [Link { latency_ms: rng.range(0, 60), phases: vec![phase] }, Link { latency_ms: rng.range(0, 60), phases: vec![back] }],
        cadence: [pick_cadence(&mut rng), pick_cadence(&mut rng)],
        pauses: [Vec::new(), Vec::new()],
        traffic: [t0, t1],
        horizon_ns: 6 * 3600 * SEC,
        ideal: false,
        max_steps: 3_000_000,
        pinned_window_s: 14400,
    }
}

/// C02: arbitrary fault prefix (incl. blackouts, one-way loss, only-ack loss, pauses) then fair.
pub fn gen_fault_then_fair(seed: u64, params: &Params) -> Scenario {
    let mut rng = Rng::new(seed);
    let sz = size_of(params);
    let mut s = gen_faulty(seed ^ 0xfa17, params);
    let fault_ns = rng.range(1, sz.fault_s.max(1) * 3) * SEC;
    s.link = [faulty_link(&mut rng, fault_ns, true), faulty_link(&mut rng, fault_ns, true)];
    for i in 0..2 {
        if rng.chance(0.3) {
            let from = rng.range(0, fault_ns);
            let until = from + rng.range(MS, fault_ns / 2 + MS);
            s.pauses[i].push(Pause { from_ns: from, until_ns: until.min(fault_ns) });
        }
        // reliable-heavy mixes
        if s.traffic[i].total > 0 && rng.chance(0.6) {
            s.traffic[i].mode_w = *rng.pick(&[[0, 0, 0, 1], [1, 1, 1, 3], [0, 1, 1, 2]]);
        }
        s.traffic[i].stop_ns = fault_ns + rng.range(0, 3) * SEC;
    }
    // Reliable packets spaced so that their parent leads sit on the datagram-header thresholds
    // (one small Reliable packet every 126..130 / 254..257 ids, submitted in bursts so that the
    // previous one is still unacknowledged)
    let mut r2 = Rng::new(seed ^ 0x9e11);
    if r2.chance(0.15) {
        s.window = 4096;
        for t in s.traffic.iter_mut() {
            if t.total > 0 {
                t.pattern = 1;
                t.amb_p = 0.0;
                t.total = t.total.max(700);
                t.per_step_p = 1.0;
                t.burst = (50, *r2.pick(&[200u64, 1000]));
            }
        }
        for c in s.cfg.iter_mut() {
            c.rx_alloc = c.rx_alloc.max(100_000);
            c.max_send_rate = c.max_send_rate.max(500_000);
        }
    }
    s.horizon_ns = fault_ns + 6 * 3600 * SEC;
    s
}

/// C11: blackouts / window-sized losses / RTT and cadence step changes, then probes.
pub fn gen_blackout(seed: u64, params: &Params) -> Scenario {
    let mut rng = Rng::new(seed);
    let mut s = gen_faulty(seed ^ 0xb1ac, params);
    let pre = rng.range(0, 5) * SEC + rng.below(SEC);
    let len = match rng.below(4) {
        0 => rng.range(100, 2000) * MS,
        1 => rng.range(2, 30) * SEC,
        2 => rng.range(30, 120) * SEC,
        _ => rng.range(120, 600) * SEC,
    };
    let mk = |rng: &mut Rng, dir_active: bool| -> Link {
        let mut phases = vec![LinkPhase::clean(pre)];
        if dir_active {
            let kind = rng.below(5);
            let mut p = LinkPhase::clean(pre + len);
            match kind {
                0 => p.blackout = true,
                1 => {
                    p.loss = 1.0;
                    p.loss_mask = 2; // all acks lost
                }
                2 => {
                    p.loss = 1.0;
                    p.loss_mask = 3; // everything but syncs lost
                }
                3 => {
                    p.loss = 1.0;
                    p.loss_mask = 1; // all data lost
                }
                _ => {
                    p.loss = 0.7;
                }
            }
            phases.push(p);
        }
        // lasting latency change after the blackout (x10 either way)
        let lat = *rng.pick(&[1u64, 10, 40, 100]);
        if rng.chance(0.4) {
            let mut p = LinkPhase::clean(pre + len + MS);
            p.latency_ms = Some(if rng.chance(0.5) { lat * 10 } else { (lat / 10).max(1) });
            phases.push(p);
        }
        Link { latency_ms: lat, phases }
    };
    let which = rng.below(3);
    s.link = [mk(&mut rng, which != 1), mk(&mut rng, which != 0)];
    let fair = s.link[0].fair_from_ns().max(s.link[1].fair_from_ns());
    for i in 0..2 {
        let t = &mut s.traffic[i];
        if t.total > 0 {
            t.per_step_p = 1.0;
            t.burst = (5, 50);
            t.stop_ns = fair + rng.range(0, 3) * SEC;
        }
        if i == 0 || rng.chance(0.5) {
            s.traffic[i].probes_after_ns = Some(fair + rng.range(5, 60) * SEC);
        }
        if s.traffic[i].channels.is_empty() {
            s.traffic[i].channels = vec![0];
        }
    }
    s.traffic[0].total = s.traffic[0].total.max(30);
    s.horizon_ns = fair + 6 * 3600 * SEC;
    if Rng::new(seed ^ 0x5a7).chance(0.2) {
        // the other side is busy with a backlog of its own at a ceiling of about one frame per
        // second and stays so long after the network has recovered: whatever it owes the blocked
        // sender (acknowledgements, the reply to its sync frame) has to get out although its send
        // credit is spent nearly all the time
        let mut r = Rng::new(seed ^ 0x5a8);
        s.cfg[1].max_send_rate = 1472;
        let t = &mut s.traffic[1];
        t.per_step_p = 1.0;
        t.burst = (20, 60);
        // (full-size frames: each one puts the credit about a second into the red)
        t.len_class = *r.pick(&[LenClass::Boundary, LenClass::Medium]);
        t.max_len = 6000;
        t.total = 400;
        t.mode_w = *r.pick(&[[0, 3, 1, 1], [0, 1, 0, 1], [1, 2, 1, 1]]);
        t.stop_ns = fair + r.range(60, 300) * SEC;
        // (stepped every 3..5 ms at one frame per second: its credit is non-negative in about one
        // step in 250)
        s.cadence[1] = Cadence::Fixed(*r.pick(&[3 * MS, 4 * MS, 5 * MS]));
        s.max_steps = s.max_steps.max(6_000_000);
        s.cfg[0].rx_alloc = s.cfg[0].rx_alloc.max(20_000);
        t.amb_p = 0.0;
        if t.channels.is_empty() {
            t.channels = vec![0];
        }
    }
    s
}

/// C13: ceilings from 1472 B/s upwards, backlogs, many flushes per step, pauses then bursts.
pub fn gen_rate(seed: u64, params: &Params) -> Scenario {
    let mut rng = Rng::new(seed);
    let mut s = gen_faulty(seed ^ 0x4a7e, params);
    let ceiling = *rng.pick(&[1472u32, 1472, 2000, 5000, 20_000, 100_000, 1_000_000, u32::MAX]);
    let other = if rng.chance(0.5) { u32::MAX } else { pick_rate_fast(&mut rng).max(ceiling) };
    if rng.chance(0.5) {
        s.cfg[0].max_send_rate = ceiling;
        s.cfg[1].max_receive_rate = other;
    } else {
        s.cfg[0].max_send_rate = other;
        s.cfg[1].max_receive_rate = ceiling;
    }
    // the reverse direction sometimes slow as well (many owed acks against a small ceiling)
    if rng.chance(0.3) {
        s.cfg[1].max_send_rate = *rng.pick(&[1472u32, 3000, 10_000]);
    }
    let budget_bytes = (ceiling as u64).saturating_mul(params.u64("rate_secs", 120)).min(3_000_000);
    for i in 0..2 {
        let t = &mut s.traffic[i];
        if t.total > 0 {
            t.extra_flushes = *rng.pick(&[0u64, 0, 1, 5, 20]);
            t.per_step_p = 1.0;
            t.burst = (1, 30);
            t.len_class = *rng.pick(&[LenClass::Small, LenClass::Medium, LenClass::Mixed]);
            let avg = match t.len_class {
                LenClass::Small => 100,
                LenClass::Medium => 1500,
                _ => 1200,
            };
            if i == 0 {
                t.total = ((budget_bytes / avg) as usize).clamp(5, t.total.max(5) * 4);
            }
        }
    }
    if rng.chance(0.3) {
        let from = rng.range(1, 10) * SEC;
        s.pauses[0].push(Pause { from_ns: from, until_ns: from + rng.range(1, 120) * SEC });
    }
    s.horizon_ns = 4 * 3600 * SEC;
    s
}

/// C06 pair: tiny allocations and windows, ack loss, so the sender sits at the limit.
pub fn gen_alloc_pair(seed: u64, params: &Params) -> Scenario {
    let mut rng = Rng::new(seed);
    let mut s = gen_faulty(seed ^ 0xa110c, params);
    s.window = *rng.pick(&[4u32, 8, 16, 64, 4096]);
    for i in 0..2 {
        s.cfg[i].rx_alloc = *rng.pick(&[1usize, 100, 1448, 1449, 3000, 5000, 10_000]);
    }
    for i in 0..2 {
        let peer_alloc = s.cfg[1 - i].rx_alloc;
        let t = &mut s.traffic[i];
        t.max_len = peer_alloc;
        t.len_class = *rng.pick(&[LenClass::Small, LenClass::Medium, LenClass::Boundary, LenClass::Large]);
        t.burst = (5, 100);
        t.per_step_p = 1.0;
        if peer_alloc < 4 {
            t.amb_p = 1.0;
        }
    }
    s
}

/// Property-specific non-triviality rules (DESIGN.md section 6), used when the driver names the
/// property a run is for; otherwise the family's own rule applies.
fn prop_rule(prop: Option<&str>, o: &Outcome) -> Option<bool> {
    let c = &o.c;
    let faults = c.get("fate_drop") + c.get("fate_blackout_drop");
    Some(match prop? {
        "C01" => c.get("deliveries") >= 20 && faults >= 1 && (c.get("fate_dup") >= 1 || c.get("fate_delay") >= 1),
        "C02" => o.quiescent && c.get("reliable_sent_3plus_times_then_delivered") >= 1,
        "C04" => c.get("delivered_multifrag") >= 1 && (c.get("fate_dup") + c.get("fate_delay") + faults >= 1),
        "C05" => c.get("deliveries") >= 50,
        "C06" => c.get("sender_at_window_limit") + c.get("sender_near_alloc_limit") >= 1 && c.get("deliveries") >= 5,
        "C11" => faults >= 1 && c.get("deliveries") >= 10,
        "C12" => c.get("frag_retx") >= 1 && c.get("ack_groups_processed") >= 1,
        "C13" => c.get("rate_events") >= 100,
        "C19" => c.get("teardowns_checked") >= 1 && c.get("delivered_multifrag") >= 1,
        "C20" => c.get("ts_discarded") >= 1 && c.get("window_acks_releasing_2plus") >= 1,
        _ => return None,
    })
}

fn outcome_sig(o: &Outcome) -> u64 {
    let mut h = o.delivered_hash;
    for (k, v) in &o.c.items {
        h = mix(h, hash_str(k) ^ (*v as u64));
    }
    h
}

fn finish_out(out: &mut ScnOut, scn: &Scenario, o: Outcome, nontrivial: bool, sample: bool) {
    out.evals = 1;
    if o.horizon_hit {
        out.counters.inc("scenarios_horizon_reached_still_progressing");
    }
    if o.quiescent {
        out.counters.inc("scenarios_quiescent");
    }
    if o.stalled {
        out.counters.inc("scenarios_stalled");
    }
    if o.panicked {
        out.counters.inc("scenarios_cut_short_by_panic");
    }
    out.counters.max("max_virtual_end_s", (o.t_end_ns / SEC) as i128);
    if nontrivial {
        out.nontrivial = 1;
        out.sigs.push(outcome_sig(&o));
    }
    for (k, v) in &o.c.items {
        if k.starts_with("max_") {
            out.counters.max(k, *v);
        } else {
            out.counters.add(k, *v);
        }
    }
    if sample {
        out.samples.push(
            J::obj()
                .with("scenario", scn.describe())
                .with("counters", o.c.to_json())
                .with("ended", J::s(if o.quiescent { "quiescent" } else if o.stalled { "stalled" } else if o.horizon_hit { "horizon" } else { "cut short" }))
                .with("virtual_end_ms", J::Int((o.t_end_ns / MS) as i128))
                .with("first_events", J::Arr(o.first_events.iter().map(|s| J::s(s)).collect())),
        );
    }
    out.violations.extend(o.violations);
}

pub fn run_family(family: &str, scn_seed: u64, idx: u64, params: &Params, out: &mut ScnOut) -> bool {
    let verbose = params.flag("verbose");
    let sample = idx % 97 == 0;
    match family {
        "faulty" | "ideal" | "frag" | "fault-then-fair" | "blackout" | "rate" | "alloc-pair" => {
            let mut scn = match family {
                "faulty" => gen_faulty(scn_seed, params),
                "ideal" => gen_ideal(scn_seed, params),
                "frag" => gen_frag(scn_seed, params),
                "fault-then-fair" => gen_fault_then_fair(scn_seed, params),
                "blackout" => gen_blackout(scn_seed, params),
                "rate" => gen_rate(scn_seed, params),
                _ => gen_alloc_pair(scn_seed, params),
            };
            add_idle_spans(&mut scn);
            let o = Sim::new(&scn, TwinMode::None, false, verbose).run();
            let c = &o.c;
            let delivered = c.get("deliveries");
            let nontrivial = match family {
                "faulty" => delivered >= 20 && c.get("fate_drop") + c.get("fate_blackout_drop") >= 1 && (c.get("fate_dup") >= 1 || c.get("fate_delay") >= 1),
                "ideal" => delivered >= 50,
                "frag" => c.get("delivered_multifrag") >= 1 && (c.get("fate_dup") + c.get("fate_delay") + c.get("fate_drop") >= 1),
                "fault-then-fair" => o.quiescent && c.get("reliable_sent_3plus_times_then_delivered") >= 1,
                "blackout" => c.get("fate_blackout_drop") + c.get("fate_drop") >= 1 && delivered >= 10,
                "rate" => c.get("rate_events") >= 100,
                _ => c.get("max_outstanding_alloc") > 0 && delivered >= 5,
            };
            let nontrivial = prop_rule(params.get("prop"), &o).unwrap_or(nontrivial);
            finish_out(out, &scn, o, nontrivial, sample);
            true
        }
        "frag-len" | "frag-max" => {
            // idx 0..=5794 sweeps every length exhaustively; larger idx sample lengths up to 1 MB
            // "first": a stride through the sweep for runs that can afford only a few lengths
            let idx = match params.get("first") {
                Some(f) => f.parse::<u64>().unwrap_or(0) + idx * 723,
                None => idx,
            };
            let huge = params.flag("huge") || family == "frag-max";
            let len = if huge {
                // the top of the legal range: 65536 fragments (last fragment id 0xFFFF), the
                // fragment-count boundaries just below it, and the powers of two on the way
                const MAXP: usize = 65536 * MAX_FRAGMENT_SIZE;
                let mut r = Rng::new(scn_seed ^ 0x4a6e);
                let fixed = [MAXP, MAXP - 1, MAXP - 1447, MAXP - 1448, MAXP - 1449, 65535 * MAX_FRAGMENT_SIZE + 1, 65534 * MAX_FRAGMENT_SIZE,
                             32768 * MAX_FRAGMENT_SIZE, 32768 * MAX_FRAGMENT_SIZE + 1, 32768 * MAX_FRAGMENT_SIZE - 1, 16384 * MAX_FRAGMENT_SIZE + 7, 4097 * MAX_FRAGMENT_SIZE];
                if (idx as usize) < fixed.len() {
                    fixed[idx as usize]
                } else {
                    match r.below(3) {
                        0 => MAXP - r.below(3000) as usize,
                        1 => (r.range(4096, 65536) as usize * MAX_FRAGMENT_SIZE + r.below(5) as usize).saturating_sub(2).min(MAXP),
                        _ => r.log_range(5_000_000, MAXP as u64) as usize,
                    }
                }
            } else if idx <= 4 * MAX_FRAGMENT_SIZE as u64 + 2 {
                idx as usize
            } else {
                let mut r = Rng::new(scn_seed ^ 0x1e9);
                match r.below(3) {
                    0 => (r.range(5, 40) as usize * MAX_FRAGMENT_SIZE + r.below(5) as usize).saturating_sub(2),
                    1 => r.log_range(5795, 1_000_000) as usize,
                    _ => *r.pick(&[65_536usize, 100_000, 1_000_000, 144_800, 1448 * 64, 1448 * 64 + 1]),
                }
            };
            let mut scn = gen_frag_len(scn_seed, len);
            if huge {
                // tens of megabytes need a link that moves them within the horizon
                let mut r = Rng::new(scn_seed ^ 0x4a6f);
                scn.cfg[0].max_send_rate = *r.pick(&[20_000_000u32, 200_000_000, u32::MAX]);
                scn.cadence = [Cadence::Fixed(*r.pick(&[2u64, 10, 30]) * MS), Cadence::Fixed(*r.pick(&[2u64, 10, 30]) * MS)];
                scn.window = *r.pick(&[64u32, 4096]);
                for l in scn.link.iter_mut() {
                    l.latency_ms = l.latency_ms.min(20);
                }
                if params.get("prop") == Some("C05") {
                    // the ideal-network form: nothing lost, duplicated or reordered
                    scn.ideal = true;
                    for l in scn.link.iter_mut() {
                        l.phases.clear();
                    }
                }
                out.counters.inc("single_packet_huge");
                if len == 65536 * MAX_FRAGMENT_SIZE {
                    out.counters.inc("single_packet_max_packet_size");
                }
            }
            let o = Sim::new(&scn, TwinMode::None, false, verbose).run();
            let mut o = o;
            let delivered = o.c.get("deliveries");
            if o.quiescent && delivered != 1 {
                let (m, _) = (scn.traffic[0].script[0].1, 0);
                o.violations.push(Violation::new("C04", "packet-not-reassembled", "C04:packet-not-reassembled", format!("a single {} packet of {} bytes was delivered {} times although every fragment reached the receiver (mode {}: loss only with retransmission)", m.name(), len, delivered, m.name())));
            }
            let nfrag = (len + MAX_FRAGMENT_SIZE - 1) / MAX_FRAGMENT_SIZE;
            let nontrivial = delivered == 1 && (nfrag >= 2 && (o.c.get("fate_dup") + o.c.get("fate_delay") + o.c.get("fate_drop") >= 1) || len <= 4 * MAX_FRAGMENT_SIZE + 2);
            out.counters.inc(if nfrag >= 2 { "single_packet_multifrag" } else { "single_packet_onefrag" });
            finish_out(out, &scn, o, nontrivial, sample);
            true
        }
        "frag-twin" => {
            let scn = gen_frag_twin(scn_seed, params);
            let a = Sim::new(&scn, TwinMode::FragInject, false, false).run();
            let b = Sim::new(&scn, TwinMode::FragInject, true, verbose).run();
            let injected = b.c.get("conflicting_datagrams_injected");
            let mut o = b;
            if a.delivered_log != o.delivered_log {
                let d = 1;
                let pos = a.delivered_log[0].iter().zip(o.delivered_log[0].iter()).position(|(x, y)| x != y).unwrap_or(a.delivered_log[0].len().min(o.delivered_log[0].len()));
                o.violations.push(Violation::new("C04", "conflicting-fragment-changed-result", "C04:conflicting-fragment-changed-result", format!("twin runs differ: with {} injected datagrams whose header disagrees with the first fragment seen, the delivered sequence in direction {} diverges at delivery #{} ({} vs {} deliveries)", injected, d - 1, pos, a.delivered_log[0].len(), o.delivered_log[0].len())));
            }
            let nontrivial = injected >= 1 && o.c.get("delivered_multifrag") >= 1;
            finish_out(out, &scn, o, nontrivial, sample);
            true
        }
        "ack-twin" => {
            let base = match idx % 3 {
                0 => gen_faulty(scn_seed, params),
                1 => gen_fault_then_fair(scn_seed, params),
                _ => gen_ideal(scn_seed, params),
            };
            let mut scn = base;
            scn.traffic[0].total = scn.traffic[0].total.max(20);
            let a = Sim::new(&scn, TwinMode::AckInject, false, false).run();
            let b = Sim::new(&scn, TwinMode::AckInject, true, verbose).run();
            let injected = b.c.get("inj_ack_frames");
            let relevant = b.c.get("inj_wrong_nonce_over_known_frames") + b.c.get("inj_replay_of_delivered_ack");
            let mut o = b;
            if a.obs != o.obs {
                let pos = a.obs.iter().zip(o.obs.iter()).position(|(x, y)| x != y).unwrap_or(a.obs.len().min(o.obs.len()));
                let (ta, ka) = a.obs.get(pos).map_or((0, "end"), |e| (e.0, e.2));
                let (tb, kb) = o.obs.get(pos).map_or((0, "end"), |e| (e.0, e.2));
                let class = if ka == kb { ka } else { "order" };
                let t_div = ta.min(tb);
                let recent: Vec<String> = o.inj_log.iter().filter(|e| e.0 <= t_div).rev().take(3).map(|e| format!("t={}ms {}", e.0 / MS, e.1)).collect();
                o.notes.push(format!("last injected frames handed to the sender before the divergence: {}", recent.join(" || ")));
                o.violations.push(Violation::new("C15", "hostile-ack-changed-sender", &format!("C15:hostile-ack-changed-sender:{}", class), format!("twin runs differ at sender observation #{}: without injection {} at t={} ms, with {} injected ack frames (wrong nonce / unknown frames / replays) {} at t={} ms; {}", pos, ka, ta / MS, injected, kb, tb / MS, o.notes.last().cloned().unwrap_or_default())));
            }
            let nontrivial = relevant >= 1;
            finish_out(out, &scn, o, nontrivial, sample);
            true
        }
        _ => false,
    }
}

pub const _UNUSED: usize = MAX_FRAGMENT_SIZE;
