// uverif: runtime-monitoring worker for lowquark/uflow. See /verif/DESIGN.md.
//
//   uverif <family> --seed S --from A --to B [--set key=value ...]
//
// Runs scenarios A..B of a family and prints one JSON line per scenario (counters, violations per
// property, structural signatures, samples). The Python driver /verif/check spawns many of these,
// merges the lines and decides the exit code.

#![allow(clippy::all)]
#![allow(dead_code)]

mod alloc;
mod codec;
mod ep_families;
mod epsim;
mod families;
mod fidelity;
mod hcsim;
mod hostile;
mod misc;
mod model;
mod payload;
mod rate14;
mod rxsynth;
mod solo;
mod util;
mod wire;

use std::collections::HashMap;
use std::io::Write;
use std::sync::atomic::{AtomicU64, Ordering};
use util::*;

#[cfg(all(feature = "checkalloc", not(miri)))]
#[global_allocator]
static GLOBAL: alloc::CheckAlloc = alloc::CheckAlloc;

pub fn checkalloc_active() -> bool {
    cfg!(all(feature = "checkalloc", not(miri)))
}

// ---- panic capture ---------------------------------------------------------------------------

thread_local! {
    static LAST_PANIC: std::cell::RefCell<Option<(String, String)>> = std::cell::RefCell::new(None);
}

pub fn install_panic_hook() {
    std::panic::set_hook(Box::new(|info| {
        let loc = info.location().map(|l| format!("{}:{}", l.file(), l.line())).unwrap_or_else(|| "?".into());
        let msg = if let Some(s) = info.payload().downcast_ref::<&str>() {
            s.to_string()
        } else if let Some(s) = info.payload().downcast_ref::<String>() {
            s.clone()
        } else {
            "<non-string panic payload>".to_string()
        };
        let old = alloc::set_tag(alloc::TAG_HARNESS);
        LAST_PANIC.with(|p| *p.borrow_mut() = Some((loc, msg)));
        alloc::set_tag(old);
    }));
}

/// (file:line, message) of the most recent panic on this thread.
pub fn take_last_panic() -> Option<(String, String)> {
    LAST_PANIC.with(|p| p.borrow_mut().take())
}

pub fn panic_message(e: &Box<dyn std::any::Any + Send>) -> String {
    let from_hook = take_last_panic();
    let msg = if let Some(s) = e.downcast_ref::<&str>() {
        s.to_string()
    } else if let Some(s) = e.downcast_ref::<String>() {
        s.clone()
    } else {
        "<panic>".to_string()
    };
    match from_hook {
        Some((loc, _)) => format!("{} at {}", msg, loc),
        None => msg,
    }
}

/// Normalised panic site for signatures: file path inside the repository without line number.
pub fn panic_site(full: &str) -> String {
    // full = "<msg> at <file>:<line>"
    if let Some(pos) = full.rfind(" at ") {
        let loc = &full[pos + 4..];
        let file = loc.rsplit_once(':').map(|x| x.0).unwrap_or(loc);
        let file = file.rsplit_once("/repo/").map(|x| x.1).unwrap_or(file);
        let mut msg: String = full[..pos].chars().map(|c| if c.is_ascii_digit() { '#' } else { c }).collect();
        while msg.contains("##") {
            msg = msg.replace("##", "#");
        }
        msg.truncate(80);
        format!("{}|{}", file, msg)
    } else {
        full.to_string()
    }
}

// ---- watchdog --------------------------------------------------------------------------------

static CALL_START_MS: AtomicU64 = AtomicU64::new(0);
static CALL_LABEL: AtomicU64 = AtomicU64::new(0);
static CUR_IDX: AtomicU64 = AtomicU64::new(0);
static mut FAMILY_NAME: Option<String> = None;

fn wall_ms() -> u64 {
    use std::sync::OnceLock;
    static BASE: OnceLock<std::time::Instant> = OnceLock::new();
    BASE.get_or_init(std::time::Instant::now).elapsed().as_millis() as u64 + 1
}

pub const LABELS: [&str; 12] = ["idle", "step", "flush", "send", "handle_data", "handle_ack", "handle_sync", "receive", "srcomp.step", "frame.read", "endpoint.step", "other"];

/// Runs one call into uflow under the watchdog and with heap attribution.
#[inline]
pub fn guarded<R>(label: usize, f: impl FnOnce() -> R) -> R {
    CALL_LABEL.store(label as u64, Ordering::Relaxed);
    CALL_START_MS.store(wall_ms(), Ordering::SeqCst);
    let r = alloc::in_uflow(f);
    CALL_START_MS.store(0, Ordering::SeqCst);
    r
}

fn start_watchdog(limit_ms: u64) {
    #[cfg(not(miri))]
    std::thread::spawn(move || loop {
        std::thread::sleep(std::time::Duration::from_millis(250));
        let start = CALL_START_MS.load(Ordering::SeqCst);
        if start != 0 {
            let now = wall_ms();
            if now > start && now - start > limit_ms {
                let label = LABELS[CALL_LABEL.load(Ordering::Relaxed) as usize % LABELS.len()];
                let fam = unsafe { (*std::ptr::addr_of!(FAMILY_NAME)).clone().unwrap_or_default() };
                let line = J::obj()
                    .with("t", J::s("hang"))
                    .with("family", J::s(&fam))
                    .with("idx", J::Int(CUR_IDX.load(Ordering::Relaxed) as i128))
                    .with("call", J::s(label))
                    .with("wall_ms", J::Int((now - start) as i128))
                    .to_string();
                let out = std::io::stdout();
                let mut out = out.lock();
                let _ = writeln!(out, "{}", line);
                let _ = out.flush();
                std::process::exit(3);
            }
        }
    });
    let _ = limit_ms;
}

// ---- scenario output -------------------------------------------------------------------------

pub struct ScnOut {
    pub evals: u64,
    pub nontrivial: u64,
    pub counters: Counters,
    pub violations: Vec<Violation>,
    pub sigs: Vec<u64>,
    pub samples: Vec<J>,
    pub inconclusive: Vec<String>,
}

impl ScnOut {
    pub fn new() -> Self {
        Self { evals: 0, nontrivial: 0, counters: Counters::default(), violations: Vec::new(), sigs: Vec::new(), samples: Vec::new(), inconclusive: Vec::new() }
    }
}

pub struct Params {
    pub map: HashMap<String, String>,
}

impl Params {
    pub fn get(&self, k: &str) -> Option<&str> {
        self.map.get(k).map(|s| s.as_str())
    }
    pub fn u64(&self, k: &str, default: u64) -> u64 {
        self.get(k).and_then(|v| v.parse().ok()).unwrap_or(default)
    }
    pub fn f64(&self, k: &str, default: f64) -> f64 {
        self.get(k).and_then(|v| v.parse().ok()).unwrap_or(default)
    }
    pub fn flag(&self, k: &str) -> bool {
        matches!(self.get(k), Some("1") | Some("true") | Some("yes"))
    }
}

fn run_scenario(family: &str, seed: u64, idx: u64, params: &Params) -> ScnOut {
    let scn_seed = mix(mix(seed, hash_str(family)), idx);
    let mut out = ScnOut::new();
    match family {
        "codec-roundtrip" => {
            let n = params.u64("batch", 2000) as usize;
            let r = codec::roundtrip_batch(scn_seed, n);
            out.evals = r.counters.get("roundtrip_frames") as u64;
            out.nontrivial = r.counters.get("rt_nontrivial") as u64;
            out.counters = r.counters;
            out.violations = r.violations;
            out.sigs = r.sigs.into_iter().collect();
            out.samples = r.samples;
        }
        "codec-decode" => {
            let n = params.u64("batch", 2000) as usize;
            let r = codec::decode_batch(scn_seed, n);
            out.evals = r.counters.get("decode_inputs") as u64;
            out.nontrivial = r.counters.get("decode_nontrivial_valid_crc") as u64;
            out.counters = r.counters;
            out.violations = r.violations;
            out.sigs = r.sigs.into_iter().collect();
            out.samples = r.samples;
        }
        "codec-flips" => {
            let n = params.u64("batch", 4000) as usize;
            let r = codec::flips_batch(scn_seed, n);
            out.evals = r.counters.get("flip_inputs") as u64;
            out.nontrivial = out.evals;
            out.counters = r.counters;
            out.violations = r.violations;
            out.sigs = r.sigs.into_iter().collect();
            out.samples = r.samples;
        }
        "crc-closure" => {
            let n = params.u64("affinity", 100000) as usize;
            let r = codec::crc_closure(scn_seed, n);
            out.evals = (r.counters.get("affinity_samples") + r.counters.get("syndromes_measured")) as u64;
            out.nontrivial = r.counters.get("closure_completed") as u64 * 4;
            out.counters = r.counters;
            out.violations = r.violations;
            out.sigs = r.sigs.into_iter().collect();
            out.samples = r.samples;
        }
        "hostile-hc" => {
            hostile::run_batch(scn_seed, params, &mut out, false);
        }
        "hostile-rx" => {
            hostile::run_batch(scn_seed, params, &mut out, true);
        }
        "ack-storm" => {
            hostile::run_ack_storm_batch(scn_seed, params, &mut out);
        }
        "solo-api" => {
            solo::run_batch(scn_seed, params, &mut out);
        }
        "pid-lap" => {
            rxsynth::run_pid_lap(scn_seed, &mut out);
        }
        "frag-rx" => {
            rxsynth::run_batch(scn_seed, params, &mut out);
        }
        "ep-fidelity" => {
            fidelity::run(scn_seed, &mut out);
        }
        "sendsync" => {
            misc::run_sendsync(scn_seed, &mut out);
        }
        "noop" => {}
        "srcomp" => {
            rate14::run_batch(scn_seed, params, &mut out);
        }
        _ => {
            if !families::run_family(family, scn_seed, idx, params, &mut out) && !ep_families::run_family(family, scn_seed, idx, params, &mut out) {
                out.inconclusive.push(format!("unknown family {}", family));
            }
        }
    }
    out
}

fn main() {
    let args: Vec<String> = std::env::args().collect();
    if args.len() < 2 {
        eprintln!("usage: uverif <family> --seed S --from A --to B [--set k=v ...]");
        std::process::exit(2);
    }
    let family = args[1].clone();
    let mut seed = 1u64;
    let mut from = 0u64;
    let mut to = 1u64;
    let mut map = HashMap::new();
    let mut i = 2;
    while i < args.len() {
        match args[i].as_str() {
            "--seed" => {
                seed = args[i + 1].parse().expect("seed");
                i += 2;
            }
            "--from" => {
                from = args[i + 1].parse().expect("from");
                i += 2;
            }
            "--to" => {
                to = args[i + 1].parse().expect("to");
                i += 2;
            }
            "--set" => {
                if let Some((k, v)) = args[i + 1].split_once('=') {
                    map.insert(k.to_string(), v.to_string());
                }
                i += 2;
            }
            other => {
                eprintln!("unknown argument {}", other);
                std::process::exit(2);
            }
        }
    }
    let params = Params { map };
    unsafe {
        *std::ptr::addr_of_mut!(FAMILY_NAME) = Some(family.clone());
    }
    install_panic_hook();
    start_watchdog(params.u64("watchdog_ms", 10_000));

    let stdout = std::io::stdout();
    for idx in from..to {
        CUR_IDX.store(idx, Ordering::Relaxed);
        let t0 = std::time::Instant::now();
        let res = std::panic::catch_unwind(std::panic::AssertUnwindSafe(|| run_scenario(&family, seed, idx, &params)));
        alloc::set_tag(alloc::TAG_HARNESS);
        let line = match res {
            Ok(o) => J::obj()
                .with("t", J::s("scn"))
                .with("family", J::s(&family))
                .with("idx", J::Int(idx as i128))
                .with("evals", J::Int(o.evals as i128))
                .with("nontrivial", J::Int(o.nontrivial as i128))
                .with("counters", o.counters.to_json())
                .with("violations", J::Arr(o.violations.iter().map(|v| v.to_json()).collect()))
                .with("sigs", J::Arr(o.sigs.iter().map(|s| J::Str(format!("{:016x}", s))).collect()))
                .with("samples", J::Arr(o.samples))
                .with("inconclusive", J::Arr(o.inconclusive.iter().map(|s| J::s(s)).collect()))
                .with("wall_ms", J::Int(t0.elapsed().as_millis() as i128)),
            Err(e) => {
                // a panic that escaped the per-call guards is a harness fault, never a verdict
                J::obj()
                    .with("t", J::s("harness_panic"))
                    .with("family", J::s(&family))
                    .with("idx", J::Int(idx as i128))
                    .with("msg", J::s(&panic_message(&e)))
            }
        };
        let mut out = stdout.lock();
        let _ = writeln!(out, "{}", line.to_string());
        let _ = out.flush();
    }
    let mut out = stdout.lock();
    let _ = writeln!(out, "{}", J::obj().with("t", J::s("done")).with("family", J::s(&family)).with("from", J::Int(from as i128)).with("to", J::Int(to as i128)).to_string());
}
